package sim

import (
	"context"
	"encoding/json"
	"fmt"
	"hash/fnv"
	"regexp"
	"strings"

	"github.com/graphql-go/graphql"
	"github.com/graphql-go/graphql/gqlerrors"
	"github.com/graphql-go/graphql/language/printer"
	"github.com/graphql-go/graphql/verifmo"
)

// C06 — prepared plans and the plan cache are semantically transparent.
//
// Seeded histories of Get / ExecutePlan / re-execution / Reset / schema
// replacement over near-collision request families, under seeded cache knobs.
// After every operation the response obtained through the cache or the prepared
// plan must equal graphql.Do of the same request from scratch.

type c06Req struct {
	Name  string
	Query string
	Op    string
	Vars  []map[string]interface{} // alternative variable assignments (index 0 used by "get")
	// Faults makes resolvers misbehave in ways that must not leak between
	// executions (a resolver scribbling over the argument map it was handed)
	Faults map[string]string
}

func v(kv ...interface{}) map[string]interface{} {
	m := map[string]interface{}{}
	for i := 0; i+1 < len(kv); i += 2 {
		m[kv[i].(string)] = kv[i+1]
	}
	return m
}

var c06Pad = strings.Repeat(" ", 60)

var c06Reqs = []c06Req{
	// F1 literal variants of one shape
	{"lit-int-1", `{ echo(i:1) }`, "", nil, nil},
	{"lit-int-2", `{ echo(i:2) }`, "", nil, nil},
	{"lit-str-a", `{ echo(s:"a") }`, "", nil, nil},
	{"lit-str-b", `{ echo(s:"b") }`, "", nil, nil},
	{"lit-enum-alpha", `{ echo(e:ALPHA) }`, "", nil, nil},
	{"lit-enum-beta", `{ echo(e:BETA) }`, "", nil, nil},
	{"lit-obj-1", `{ echo(f:{min:1, kind:GAMMA}) }`, "", nil, nil},
	{"lit-obj-2", `{ echo(f:{min:2, tags:["x"]}) }`, "", nil, nil},
	{"lit-list-1", `{ echo(l:[1,2]) }`, "", nil, nil},
	{"lit-list-2", `{ echo(l:[3]) }`, "", nil, nil},
	{"lit-stamp", `{ echo(st:"s1") }`, "", nil, nil},
	{"lit-float", `{ echo(fl:1.5) }`, "", nil, nil},
	{"lit-float-int", `{ echo(fl:2) }`, "", nil, nil},
	{"lit-id-int", `{ echo(id:4) }`, "", nil, nil},
	{"lit-id-str", `{ echo(id:"4") }`, "", nil, nil},
	{"lit-bool", `{ echo(b:true) }`, "", nil, nil},
	{"lit-id-wide", `{ echo(id:12345678901) echo2(id:-98765432109, l:[1,2]) }`, "", nil, nil},
	{"lit-float-exp", `{ echo(fl:1e3) echo2(fl:-0.5) }`, "", nil, nil},
	{"lit-default-and-lit", `{ echo(s:"only-s") nodes(as:"A") { id } }`, "", nil, nil},
	{"lit-two-args", `{ echo(i:1, s:"a") }`, "", nil, nil},
	{"lit-two-args-swapped", `{ echo(s:"a", i:1) }`, "", nil, nil},
	{"lit-default-only", `{ echo }`, "", nil, nil},
	// F2 directives
	{"dir-skip-true", `{ x1 @skip(if:true) x2 }`, "", nil, nil},
	{"dir-none", `{ x1 x2 }`, "", nil, nil},
	{"dir-include-false", `{ x1 @include(if:false) x2 }`, "", nil, nil},
	{"dir-skip-false", `{ x1 @skip(if:false) x2 }`, "", nil, nil},
	{"dir-inline-skip", `{ ... @skip(if:true) { x1 } x2 }`, "", nil, nil},
	{"dir-inline-none", `{ ... { x1 } x2 }`, "", nil, nil},
	{"dir-spread-skip", `{ ...F @skip(if:true) x2 } fragment F on Query { x1 }`, "", nil, nil},
	{"dir-spread-none", `{ ...F x2 } fragment F on Query { x1 }`, "", nil, nil},
	{"dir-var", `query($s:Boolean!){ x1 @skip(if:$s) x2 }`, "", []map[string]interface{}{v("s", true), v("s", false)}, nil},
	{"dir-arg-lit", `{ x1 echo(i:3) @include(if:true) }`, "", nil, nil},
	// F3 variable defaults
	{"def-1", `query($x:Int=1){ echo(i:$x) }`, "", []map[string]interface{}{nil, v("x", 9)}, nil},
	{"def-2", `query($x:Int=2){ echo(i:$x) }`, "", []map[string]interface{}{nil, v("x", 9)}, nil},
	{"def-none", `query($x:Int){ echo(i:$x) }`, "", []map[string]interface{}{nil, v("x", 9)}, nil},
	{"def-enum", `query($e:Kind=BETA){ echo(e:$e) }`, "", []map[string]interface{}{nil, v("e", "GAMMA")}, nil},
	{"def-enum2", `query($e:Kind=GAMMA){ echo(e:$e) }`, "", []map[string]interface{}{nil, v("e", "ALPHA")}, nil},
	// F4 aliases
	{"alias-a1", `{ a1: echo(i:1) }`, "", nil, nil},
	{"alias-a2", `{ a2: echo(i:1) }`, "", nil, nil},
	// F6 operation names
	{"ops-A", `query A { x1 } query B { x2 }`, "A", nil, nil},
	{"ops-B", `query A { x1 } query B { x2 }`, "B", nil, nil},
	{"ops-none", `query A { x1 } query B { x2 }`, "", nil, nil},
	{"ops-unknown", `query A { x1 } query B { x2 }`, "C", nil, nil},
	{"ops-single-named", `query A { x1 }`, "", nil, nil},
	{"ops-single-wrongname", `query A { x1 }`, "B", nil, nil},
	// F7 contents that mimic the key encoding
	{"nul-in-string", "{ echo(s:\"A\\u0000{ x1 }\") }", "", nil, nil},
	{"nul-query", "\x00{ x1 }", "", nil, nil},
	{"nul-opname", "{ x1 }", "\x00", nil, nil},
	{"opname-as-prefix", `{ x1 }`, "{ x1 }", nil, nil},
	// twins of normalised shapes that extract nothing themselves
	{"pcv-twin-int", `query($__pcv0:Int){ echo(i:$__pcv0) }`, "", []map[string]interface{}{nil, v("__pcv0", 3)}, nil},
	{"pcv-twin-str", `query($__pcv0:String){ echo(s:$__pcv0) }`, "", []map[string]interface{}{nil, v("__pcv0", "own")}, nil},
	// the same fragment spread at several places
	{"frag-twice-1", `{ p: a { ...F } q: a { ...F name } } fragment F on A { id aOnly }`, "", nil, nil},
	{"frag-twice-2", `{ p: a { ...F } q: a { name } } fragment F on A { id aOnly }`, "", nil, nil},
	{"frag-twice-3", `{ p: a { ...F } q: a { ...F @skip(if:true) name } } fragment F on A { id aOnly }`, "", nil, nil},
	// resolver-less fields with literal arguments seen (and mutated) by a FieldResolver source
	{"fieldresolver-args", `{ plainFR { echoArg(x:5, y:2) e2: echoArg n } }`, "", nil, nil},
	// string literals that differ only by an escape
	{"str-escapes", "{ x: echo(s: \"a\\\\nb\") y: echo2(s: \"a\\nb\") z: echo(s: \"q\\\"r\") }", "", nil, nil},
	// the normalised operation is what gets validated: inline fragments in it
	{"inline-only-use-of-var", `query($n:Int){ echo(i:1) ... on Query { nodes(n:$n) { id } } }`, "", []map[string]interface{}{v("n", 1), nil}, nil},
	{"inline-invalid-inside", `{ echo(i:1) ... on Query { nope } }`, "", nil, nil},
	{"inline-bad-arg-inside", `{ echo(i:2) ... { echo2(zz:1) } }`, "", nil, nil},
	// input objects that omit defaulted fields
	{"obj-omits-defaults", `{ echo(f:{tags:["x"]}) echo2(f:{st:"s"}) }`, "", nil, nil},
	// F8 repeated fields
	{"rep-equal-lit", `{ echo(i:1) echo(i:1) }`, "", nil, nil},
	{"rep-equal-lit-nested", `{ a { name(up:true) } a { name(up:true) } }`, "", nil, nil},
	{"rep-plain", `{ a { name } a { id } }`, "", nil, nil},
	// F9 over-size
	{"big-1", `{ x1 ` + c06Pad + ` x2 }`, "", nil, nil},
	{"big-lit", `{ echo(i:5` + c06Pad + `) }`, "", nil, nil},
	// F10 invalid / unparsable
	{"inv-unknown", `{ nope }`, "", nil, nil},
	{"inv-syntax", `{ x1 `, "", nil, nil},
	{"inv-lit-type", `{ echo(i:"str") }`, "", nil, nil},
	{"inv-arg", `{ echo(zz:1) }`, "", nil, nil},
	{"inv-enum", `{ echo(e:NOPE) }`, "", nil, nil},
	// F11 required variables
	{"var-required", `query($v:Int!){ echo(i:$v) }`, "", []map[string]interface{}{v("v", 3), nil, v("v", 4), v("v", "x")}, nil},
	{"var-obj", `query($f:Filter){ echo(f:$f, i:2) }`, "", []map[string]interface{}{v("f", map[string]interface{}{"min": 3}), nil, v("f", map[string]interface{}{"kind": "BETA"})}, nil},
	// F12 abstract runtime types chosen by an extracted literal
	{"abs-B", `{ node(as:"B") { id ... on B { bOnly nodes(n:1) { id } } ... on A { aOnly } } }`, "", nil, nil},
	{"abs-A", `{ node(as:"A") { id ... on B { bOnly nodes(n:1) { id } } ... on A { aOnly } } }`, "", nil, nil},
	{"abs-var", `query($t:String){ node(as:$t) { id ... on C { cOnly } ... on A { aOnly items(n:1) { n } } } }`, "", []map[string]interface{}{v("t", "C"), v("t", "A"), v("t", "B")}, nil},
	// F13 literals inside fragments
	{"frag-lit-1", `{ ...F } fragment F on Query { echo(i:1) }`, "", nil, nil},
	{"frag-lit-2", `{ ...F } fragment F on Query { echo(i:2) }`, "", nil, nil},
	{"frag-inline-lit", `{ ... on Query { echo(i:7) } a { ... on A { items(n:1) { n } } } }`, "", nil, nil},
	// F14 mutations
	{"mut-1", `mutation { s1(v:1) }`, "", nil, nil},
	{"mut-2", `mutation { s1(v:2) m1(v:3) { id } }`, "", nil, nil},
	// F15 literal containing a variable
	{"mixed-lit-var", `query($t:String!){ echo(f:{min:1, tags:[$t]}, i:4) }`, "", []map[string]interface{}{v("t", "z"), v("t", "y")}, nil},
	// F16 user variable named like a synthetic one
	{"pcv-name", `query($__pcv0:Int){ echo(i:$__pcv0, s:"lit") }`, "", []map[string]interface{}{v("__pcv0", 5), nil}, nil},
	// nested selections with literals at depth
	{"deep-lit", `{ a { items(n:1) { n } u(as:"B") { ... on B { nodes(n:2) { id } } } } }`, "", nil, nil},
	{"deep-lit-2", `{ a { items(n:3) { n } u(as:"A") { ... on B { nodes(n:2) { id } } ... on A { aOnly } } } }`, "", nil, nil},
	// the same literal text in positions of different input types
	{"same-text-int-float", `{ echo(i:1, fl:1) }`, "", nil, nil},
	{"same-text-str-id", `{ echo(s:"4", id:"4") echo2(id:4, i:4) }`, "", nil, nil},
	{"same-text-list", `{ echo(l:[2], i:2) nodes(n:2) { id } }`, "", nil, nil},
	// resolvers that mutate the argument map they were handed
	{"hostile-static-args", `{ echo(i:1, s:"a") a { name(up:true) } }`, "", nil, map[string]string{"R@echo": FHostile, "R@a.name": FHostile}},
	{"hostile-var-args", `query($i:Int){ echo(i:$i, s:"k") }`, "", []map[string]interface{}{v("i", 1), v("i", 2)}, map[string]string{"R@echo": FHostile}},
	{"hostile-default-args", `{ echo nodes { id } }`, "", nil, map[string]string{"R@echo": FHostile, "R@nodes": FHostile}},
	// failing resolvers after literals of different length (error locations)
	{"lit-err-short", `{ echo(i:1) x1 leafy { sNN } }`, "", nil, map[string]string{"R@x1": FErr, "R@leafy.sNN": FErr}},
	{"lit-err-long", `{ echo(i:123456) x1 leafy { sNN } }`, "", nil, map[string]string{"R@x1": FErr, "R@leafy.sNN": FPanicStr}},
	// variable-driven directives inside lazily planned abstract selections
	{"abs-dir-var", `query($h:Boolean!,$t:String){ node(as:$t) { id ... on A { aOnly @skip(if:$h) name @include(if:$h) } ... on B { bOnly @include(if:$h) } } u { ... on A { aOnly @skip(if:$h) } } }`, "",
		[]map[string]interface{}{v("h", true, "t", "A"), v("h", false, "t", "A"), v("h", false, "t", "B"), v("h", true, "t", "B")}, nil},
	{"abs-dir-var-list", `query($h:Boolean!){ nodes(n:3) { id ... @skip(if:$h) { name } ... on B { peer { id @skip(if:$h) name } } } }`, "",
		[]map[string]interface{}{v("h", true), v("h", false)}, nil},
	// the same field with the same literals in the operation and in a named fragment
	{"lit-op-and-frag", `{ echo(i:1, s:"a") ...F } fragment F on Query { echo(i:1, s:"a") x1 }`, "", nil, nil},
	{"lit-op-and-frag-2", `{ echo(i:2, s:"b") ...F } fragment F on Query { echo(i:2, s:"b") x1 }`, "", nil, nil},
	{"lit-op-and-frag-nested", `{ a { name(up:true) items(n:2) { n } ...G } echo(i:3) } fragment G on A { name(up:true) items(n:2) { label } }`, "", nil, nil},
	// occurrences of one response key under different variable-driven conditions
	{"cond-dup", `query($s:Boolean!){ x1 @skip(if:$s) x1 a @skip(if:$s) { name } a { id } ...F @skip(if:$s) ...F echo(i:1) } fragment F on Query { x2 }`, "",
		[]map[string]interface{}{v("s", true), v("s", false)}, nil},
	// the merged selection of an abstract field depends on the parent's runtime type
	{"abs-merge-var", `query($t:String){ node(as:$t) { peer(as:"B") { id } ... on A { peer(as:"B") { ... on B { bOnly } } } ... on C { peer(as:"B") { name } } } }`, "",
		[]map[string]interface{}{v("t", "A"), v("t", "B"), v("t", "C")}, nil},
	{"abs-merge-lit-A", `{ node(as:"A") { peer(as:"B") { id } ... on A { peer(as:"B") { ... on B { bOnly } } } ... on C { peer(as:"B") { name } } } }`, "", nil, nil},
	{"abs-merge-lit-C", `{ node(as:"C") { peer(as:"B") { id } ... on A { peer(as:"B") { ... on B { bOnly } } } ... on C { peer(as:"B") { name } } } }`, "", nil, nil},
	// valid for one of the two schemas only (world B has the root field onlyB)
	{"only-b", `{ x1 onlyB }`, "", nil, nil},
	{"only-b-lit", `{ onlyB echo(i:1) }`, "", nil, nil},
	{"introspect", `{ __type(name:"Kind") { name kind } }`, "", nil, nil},
	{"introspect-2", `{ __type(name:"Filter") { name kind } }`, "", nil, nil},
	// literals that are invalid for their argument type (composite ones coerce
	// to something non-nil all the same): the validation error of the request
	{"bad-inputobj-literal", `{ echo(f:{min:"a", tags:3, kind:NOPE, zzz:1, st:5}) }`, "", nil, nil},
	{"bad-inputobj-literal-2", `{ echo(f:{min:1, tags:[1, "t"]}) x1 }`, "", nil, nil},
	{"bad-list-literal", `{ echo(l:[1, "two", 3]) }`, "", nil, nil},
	{"bad-list-literal-2", `{ echo2(l:[1, 2.5]) echo(i:1) }`, "", nil, nil},
	// one document in two layouts, with a field error: the error locations are
	// those of the text that was sent
	{"layout-flat", `{ x1 leafy { s sNN } x2 }`, "", nil, map[string]string{"R@leafy.sNN": FErr, "R@x2": FErr}},
	{"layout-indented", "{\n  x1\n  leafy {\n    s\n    sNN\n  }\n\n  x2 # the last one\n}\n", "", nil, map[string]string{"R@leafy.sNN": FErr, "R@x2": FErr}},
	{"layout-commas", `{ x1, leafy { s, sNN }, x2 }`, "", nil, map[string]string{"R@leafy.sNN": FErr, "R@x2": FErr}},
	// texts that differ inside a string only (white space, '#', quotes in block strings)
	{"blockstr-quote-1", `{ echo(s:"""say "a   b" now""") }`, "", nil, nil},
	{"blockstr-quote-2", `{ echo(s:"""say "a b" now""") }`, "", nil, nil},
	{"blockstr-hash-1", "{ echo(s:\"\"\"a \" # b\n c\"\"\") x1 }", "", nil, nil},
	{"blockstr-hash-2", "{ echo(s:\"\"\"a \" # d\n c\"\"\") x1 }", "", nil, nil},
	{"str-spaces-1", `{ echo(s:"a  b") }`, "", nil, nil},
	{"str-spaces-2", `{ echo(s:"a b") }`, "", nil, nil},
	{"str-hash-1", "{ echo(s:\"a # b\") x1 }", "", nil, nil},
	{"str-hash-2", "{ echo(s:\"a # c\") x1 }", "", nil, nil},
	{"comment-quote-1", "{ x1 # \"\n echo(s:\"p  q\") }", "", nil, nil},
	{"comment-quote-2", "{ x1 # \"\n echo(s:\"p q\") }", "", nil, nil},
	// a value whose runtime type belongs to the schema through the explicit type
	// list only (the "retype" operation swaps in a schema around the same root
	// objects with another type list)
	{"retyped-node", `{ node(as:"D") { id kind } nodes(n:2, as:"D") { id } x1 }`, "", nil, nil},
	{"retyped-frag", `{ node(as:"D") { id ... on D { dOnly } } }`, "", nil, nil},
	{"retyped-introspect", `{ __type(name:"Node") { possibleTypes { name } } }`, "", nil, nil},
}

var c06RetypedBase = func() int {
	for i, r := range c06Reqs {
		if r.Name == "retyped-node" {
			return i
		}
	}
	panic("c06: retyped-node missing")
}()

type C06Op struct {
	Kind   string `json:"kind"` // get | reexec | reset | swap
	Req    int    `json:"req,omitempty"`
	Schema int    `json:"schema,omitempty"`
	Vars   int    `json:"vars,omitempty"`
	Slot   int    `json:"slot,omitempty"` // reexec: index of an earlier get op
}

// C06Inter is the interleaved variant: two clients, one per same-shape schema,
// issue the same request through one cache on the scheduler (double misses and
// racing stores around a schema replacement).
type C06Inter struct {
	Reqs   []int    `json:"reqs"`
	Park   []string `json:"park"`
	Sticky int      `json:"stickiness"`
	Rounds int      `json:"rounds"`
}

type C06Scn struct {
	Inter         *C06Inter `json:"inter,omitempty"`
	MaxEntries    int       `json:"max_entries"`
	MaxQueryBytes int       `json:"max_query_bytes"`
	Normalize     bool      `json:"normalize"`
	NilCache      bool      `json:"nil_cache,omitempty"`
	Ops           []C06Op   `json:"ops"`
	// Gen: generated documents (gendoc.go) appended to the pool for this
	// scenario; request index len(pool)+i refers to Gen[i]
	Gen []GenDoc `json:"gen,omitempty"`
}

// c06ReqAt resolves a request index of a scenario.
func c06ReqAt(sc *C06Scn, i int) c06Req {
	if i < len(c06Reqs) {
		return c06Reqs[i]
	}
	g := sc.Gen[i-len(c06Reqs)]
	return c06Req{Name: fmt.Sprintf("generated-%d", i-len(c06Reqs)), Query: g.Query, Vars: []map[string]interface{}{normaliseJSONInts(g.Vars).(map[string]interface{})}}
}

type c06 struct{}

func init() { Register(c06{}) }

func (c06) ID() string { return "C06" }

// enumerated part: every ordered pair of pool requests (a then b then a) through
// a fresh cache, Normalize on and off.
func (c06) EnumSize(tier string) int { return len(c06Reqs) * len(c06Reqs) * 2 }

func (p c06) Gen(seed uint64, enum int, tier string) json.RawMessage {
	s := C06Scn{}
	if enum >= 0 {
		s.Normalize = enum%2 == 1
		enum /= 2
		a, b := enum/len(c06Reqs), enum%len(c06Reqs)
		s.Ops = []C06Op{{Kind: "get", Req: a}, {Kind: "get", Req: b}, {Kind: "get", Req: a}}
		return mustJSON(s)
	}
	r := NewRNG(seed)
	if r.Chance(12) {
		in := &C06Inter{Sticky: []int{0, 30, 60}[r.Intn(3)], Rounds: 1 + r.Intn(2)}
		for n := 1 + r.Intn(2); n > 0; n-- {
			in.Reqs = append(in.Reqs, r.Intn(len(c06Reqs)))
		}
		for _, c := range []string{"cache.lookup.lock", "cache.store.lock", "client", "plan.exec.start"} {
			if r.Chance(75) {
				in.Park = append(in.Park, c)
			}
		}
		s.Inter = in
		s.Normalize = r.Chance(50)
		s.MaxEntries = []int{1, 2, 0}[r.Intn(3)]
		return mustJSON(s)
	}
	s.MaxEntries = []int{1, 1, 2, 3, 4, 0}[r.Intn(6)]
	s.MaxQueryBytes = []int{0, 0, 0, 40}[r.Intn(4)]
	s.Normalize = r.Chance(60)
	s.NilCache = r.Chance(5)
	n := 4 + r.Intn(11)
	// histories are biased towards a small working set so that collisions,
	// hits and evictions actually happen
	work := make([]int, 2+r.Intn(5))
	for i := range work {
		work[i] = r.Intn(len(c06Reqs))
		if i > 0 && r.Chance(50) {
			// a neighbour in the pool: usually a near-collision sibling
			work[i] = (work[i-1] + 1) % len(c06Reqs)
		}
	}
	if r.Chance(35) {
		// generated documents: one structure with two sets of literals (the
		// normalising cache serves both from one plan), and an unrelated one
		seedS, w := r.Uint64(), c04GenWorld()
		size := 5 + r.Intn(20)
		s.Gen = append(s.Gen, GenQueryDoc2(NewRNG(seedS), NewRNG(r.Uint64()), w, size, true))
		s.Gen = append(s.Gen, GenQueryDoc2(NewRNG(seedS), NewRNG(r.Uint64()), w, size, true))
		s.Gen = append(s.Gen, GenQueryDoc(NewRNG(r.Uint64()), w, 5+r.Intn(20), true))
		for i := range s.Gen {
			if r.Chance(70) {
				work = append(work, len(c06Reqs)+i)
			}
		}
		work = append(work, len(c06Reqs), len(c06Reqs)+1)
	}
	retype := r.Chance(10)
	if retype {
		// schema replacement around the same root objects: the working set holds
		// requests whose answer depends on the explicit type list
		work = append(work[:1+r.Intn(len(work))], c06RetypedBase, c06RetypedBase+1, c06RetypedBase+2, c06RetypedBase+r.Intn(3))
	}
	var gets []int
	for i := 0; i < n; i++ {
		if retype && len(gets) > 0 && r.Chance(22) {
			s.Ops = append(s.Ops, C06Op{Kind: "retype", Schema: r.Intn(2)})
			continue
		}
		switch x := r.Intn(100); {
		case x < 70 || len(gets) == 0:
			req := work[r.Intn(len(work))]
			op := C06Op{Kind: "get", Req: req, Schema: 0}
			if r.Chance(25) {
				op.Schema = 1
			}
			if r.Chance(18) {
				// a plan prepared directly from the caller's own parsed document
				// (PlanQuery), to be re-executed later with other variables
				op.Kind = "prep"
			}
			if nv := len(c06ReqAt(&s, req).Vars); nv > 0 {
				op.Vars = r.Intn(nv)
			}
			gets = append(gets, len(s.Ops))
			s.Ops = append(s.Ops, op)
		case x < 85:
			slot := gets[r.Intn(len(gets))]
			op := C06Op{Kind: "reexec", Slot: slot}
			if nv := len(c06ReqAt(&s, s.Ops[slot].Req).Vars); nv > 0 {
				op.Vars = r.Intn(nv)
			}
			s.Ops = append(s.Ops, op)
		case x < 93:
			s.Ops = append(s.Ops, C06Op{Kind: "reset"})
		default:
			s.Ops = append(s.Ops, C06Op{Kind: "swap", Schema: r.Intn(2)})
		}
	}
	return mustJSON(s)
}

func (c06) Shrink(scn json.RawMessage) []json.RawMessage {
	var s C06Scn
	json.Unmarshal(scn, &s)
	var out []json.RawMessage
	for i := len(s.Ops) - 1; i >= 0; i-- {
		// dropping an op invalidates reexec slots that point at or after it
		t := s
		t.Ops = nil
		ok := true
		for j, op := range s.Ops {
			if j == i {
				continue
			}
			if op.Kind == "reexec" {
				if op.Slot == i {
					ok = false
					break
				}
				if op.Slot > i {
					op.Slot--
				}
			}
			t.Ops = append(t.Ops, op)
		}
		if ok && len(t.Ops) > 0 {
			out = append(out, mustJSON(t))
		}
	}
	if s.MaxQueryBytes != 0 {
		t := s
		t.MaxQueryBytes = 0
		out = append(out, mustJSON(t))
	}
	if s.MaxEntries != 0 {
		t := s
		t.MaxEntries = 0
		out = append(out, mustJSON(t))
	}
	return out
}

var reLocations = regexp.MustCompile(`"locations":\[[^\]]*\]`)

func stripLocations(s string) string { return reLocations.ReplaceAllString(s, `"locations":[]`) }

func mergeArgs(user, synth map[string]interface{}) map[string]interface{} {
	if len(user) == 0 && len(synth) == 0 {
		return nil
	}
	out := map[string]interface{}{}
	for k, v := range user {
		out[k] = v
	}
	for k, v := range synth {
		out[k] = v
	}
	return out
}

func c06Ctx(w *World, q string, faults map[string]string) context.Context {
	root := "Query"
	if strings.HasPrefix(strings.TrimSpace(q), "mutation") {
		root = "Mutation"
	}
	rc := &ReqCtx{Task: "c1", W: w, Faults: faults, RootTok: Tok{T: root}}
	return WithReq(context.Background(), rc)
}

// c06Scratch is the from-scratch reference: parse, validate and execute.
func c06Scratch(w *World, rq c06Req, vars map[string]interface{}) string {
	return MarshalResult(graphql.Do(graphql.Params{Schema: w.Schema, RequestString: rq.Query, OperationName: rq.Op, VariableValues: vars, Context: c06Ctx(w, rq.Query, rq.Faults)}))
}

func (c06) Run(t TestingT, scn json.RawMessage, tape *Tape) *Outcome {
	var sc C06Scn
	if err := json.Unmarshal(scn, &sc); err != nil {
		return &Outcome{Infra: "bad scenario: " + err.Error()}
	}
	o := &Outcome{}
	verifmo.Set(verifmo.Sorted, 0)
	if sc.Inter != nil {
		return c06RunInterleaved(t, &sc, scn, tape)
	}
	WorldBOnlyField = true
	defer func() { WorldBOnlyField = false }()
	worlds := []*World{NewWorld("A"), NewWorld("B")}
	seenSchema := map[*graphql.Schema]bool{}
	var cache *graphql.PlanCache
	if !sc.NilCache {
		cache = graphql.NewPlanCache(graphql.PlanCacheOptions{MaxEntries: sc.MaxEntries, MaxQueryBytes: sc.MaxQueryBytes, Normalize: sc.Normalize})
	}
	limit := sc.MaxEntries
	if limit <= 0 {
		limit = 1024
	}
	type got struct {
		pr     graphql.PlanResult
		w      *World
		req    int
		direct bool // prepared by PlanQuery from the caller's own document
	}
	slots := map[int]got{}
	var lastHits, lastMisses uint64
	var log []string
	planOf := map[string]*graphql.Plan{}
	// documents the caller parsed itself and prepared plans from: they must
	// print the same after every later operation
	type heldDoc struct {
		doc     *graphqlDoc
		printed string
		name    string
	}
	var heldDocs []heldDoc
	for i, op := range sc.Ops {
		switch op.Kind {
		case "prep":
			rq := c06ReqAt(&sc, op.Req)
			w := worlds[op.Schema]
			var vars map[string]interface{}
			if op.Vars < len(rq.Vars) {
				vars = rq.Vars[op.Vars]
			}
			var res string
			doc, err := parseDoc(rq.Query)
			if err != nil {
				res = MarshalResult(&graphql.Result{Errors: gqlerrors.FormatErrors(err)})
			} else if vr := graphql.ValidateDocument(&w.Schema, doc, nil); !vr.IsValid {
				res = MarshalResult(&graphql.Result{Errors: vr.Errors})
			} else {
				heldDocs = append(heldDocs, heldDoc{doc, fmt.Sprint(printer.Print(doc)), rq.Name})
				if pl, err := graphql.PlanQuery(&w.Schema, doc, rq.Op); err != nil {
					res = MarshalResult(&graphql.Result{Errors: gqlerrors.FormatErrors(err)})
				} else {
					slots[i] = got{graphql.PlanResult{Plan: pl}, w, op.Req, true}
					res = MarshalResult(graphql.ExecutePlan(pl, graphql.ExecuteParams{Schema: w.Schema, Args: vars, Context: c06Ctx(w, rq.Query, rq.Faults)}))
					o.Probe("plan-prepared-directly")
				}
			}
			want := c06Scratch(w, rq, vars)
			log = append(log, fmt.Sprintf("prep %s@%s", rq.Name, w.ID))
			if res != want {
				o.Violate("C06/prepared-differs@"+rq.Name, "op %d: parse + validate + PlanQuery + ExecutePlan of %q (op %q, vars %v) differs from executing it from scratch\n  plan: %s\n fresh: %s\nhistory: %s",
					i, rq.Query, rq.Op, vars, res, want, strings.Join(log, "; "))
			}
		case "reset":
			cache.Reset()
			o.Fire("reset", 1)
			log = append(log, "reset")
		case "retype":
			// a new schema value around the same root objects and callbacks, with
			// another explicit type list
			worlds[op.Schema] = worlds[op.Schema].Retyped()
			o.Fire("schema-retype", 1)
			log = append(log, fmt.Sprintf("retype %d (withD=%v)", op.Schema, worlds[op.Schema].WithD))
		case "swap":
			// a rebuilt schema of the same shape: new pointer, same id
			worlds[op.Schema] = NewWorld(worlds[op.Schema].ID)
			o.Fire("schema-swap", 1)
			log = append(log, fmt.Sprintf("swap %d", op.Schema))
		case "get":
			rq := c06ReqAt(&sc, op.Req)
			w := worlds[op.Schema]
			var vars map[string]interface{}
			if op.Vars < len(rq.Vars) {
				vars = rq.Vars[op.Vars]
			}
			pr := cache.Get(&w.Schema, rq.Query, rq.Op)
			slots[i] = got{pr, w, op.Req, false}
			if cache != nil && !seenSchema[&w.Schema] {
				// nothing was ever stored for this schema: whatever the cache
				// holds belongs to other schemas and must not be served
				if h, _ := cache.HitsMisses(); h > lastHits {
					o.Violate("C06/hit-across-schemas", "op %d: the first Get(%q) for a schema the cache has never seen was counted as a hit (normalize=%v)\nhistory: %s", i, rq.Query, sc.Normalize, strings.Join(log, "; "))
				}
				seenSchema[&w.Schema] = true
			}
			var res string
			if len(pr.Errors) > 0 || pr.Plan == nil {
				res = MarshalResult(&graphql.Result{Errors: pr.Errors})
			} else {
				res = MarshalResult(graphql.ExecutePlan(pr.Plan, graphql.ExecuteParams{Schema: w.Schema, Args: mergeArgs(vars, pr.SynthArgs), Context: c06Ctx(w, rq.Query, rq.Faults)}))
				key := fmt.Sprintf("%p", pr.Plan)
				if prev, ok := planOf[key]; ok && prev == pr.Plan {
					o.Probe("plan-shared-between-gets")
				}
				planOf[key] = pr.Plan
			}
			want := c06Scratch(w, rq, vars)
			log = append(log, fmt.Sprintf("get %s@%s", rq.Name, w.ID))
			if res != want && sc.Normalize && stripLocations(res) == stripLocations(want) {
				// the recorded finding F-C06-5: the plan shared under Normalize
				// carries the AST - and so the error locations - of the request
				// that created it
				o.Violate("C06/error-locations-of-other-request", "op %d: Get+ExecutePlan of %q (normalize=%v) reports the error locations of another request's text\n cache: %s\n  fresh: %s\nhistory: %s",
					i, rq.Query, sc.Normalize, res, want, strings.Join(log, "; "))
			} else if res != want {
				o.Violate("C06/differs@"+rq.Name, "op %d: Get+ExecutePlan of %q (op %q, vars %v, normalize=%v) differs from executing it from scratch\n cache: %s\n  fresh: %s\nhistory: %s",
					i, rq.Query, rq.Op, vars, sc.Normalize, res, want, strings.Join(log, "; "))
			}
		case "reexec":
			g, ok := slots[op.Slot]
			if !ok || g.pr.Plan == nil {
				continue
			}
			rq := c06ReqAt(&sc, g.req)
			var vars map[string]interface{}
			if op.Vars < len(rq.Vars) {
				vars = rq.Vars[op.Vars]
			}
			// the plan is bound to the schema it was planned against
			res := MarshalResult(graphql.ExecutePlan(g.pr.Plan, graphql.ExecuteParams{Schema: g.w.Schema, Args: mergeArgs(vars, g.pr.SynthArgs), Context: c06Ctx(g.w, rq.Query, rq.Faults)}))
			want := c06Scratch(g.w, rq, vars)
			o.Probe("plan-reexecuted")
			log = append(log, fmt.Sprintf("reexec %s", rq.Name))
			if res != want && sc.Normalize && !g.direct && stripLocations(res) == stripLocations(want) {
				o.Violate("C06/error-locations-of-other-request", "op %d: re-executing the plan of %q reports the error locations of another request's text\n  plan: %s\n fresh: %s", i, rq.Query, res, want)
			} else if res != want {
				o.Violate("C06/reexec-differs@"+rq.Name, "op %d: re-executing the plan of %q with vars %v differs from executing it from scratch\n  plan: %s\n fresh: %s\nhistory: %s",
					i, rq.Query, vars, res, want, strings.Join(log, "; "))
			}
		}
		for _, hd := range heldDocs {
			if now := fmt.Sprint(printer.Print(hd.doc)); now != hd.printed {
				o.Violate("C06/document-modified", "after op %d the caller's parsed document of %s, from which a plan was prepared, prints differently\n before: %s\n    now: %s\nhistory: %s", i, hd.name, hd.printed, now, strings.Join(log, "; "))
				break
			}
		}
		if cache != nil {
			ml, ll := graphql.PlanCacheLenForVerif(cache)
			if ml > limit || ll > limit || ml != ll {
				o.Violate("C06/retains-too-many", "after op %d the cache holds %d map entries / %d list entries, configured maximum %d", i, ml, ll, limit)
			}
			if ml == limit {
				o.Probe("cache-full")
			}
			h, m := cache.HitsMisses()
			if h < lastHits || m < lastMisses {
				o.Violate("C06/counters", "hit/miss counters went backwards: %d/%d after %d/%d", h, m, lastHits, lastMisses)
			}
			if h > lastHits {
				o.Probe("cache-hit")
			}
			lastHits, lastMisses = h, m
		}
	}
	hh := fnv.New64a()
	fmt.Fprintf(hh, "%s", scn)
	o.TraceHash = fmt.Sprintf("%016x", hh.Sum64())
	o.Steps = len(sc.Ops)
	o.Trace = log
	o.Nontrivial = lastHits > 0 || len(sc.Ops) > 2
	o.Sample = map[string]interface{}{"scenario": sc, "log": log}
	return o
}

func c06RunInterleaved(t TestingT, sc *C06Scn, scn json.RawMessage, tape *Tape) *Outcome {
	o := &Outcome{}
	in := sc.Inter
	s := NewSim(tape)
	s.Stickiness = in.Sticky
	for _, c := range in.Park {
		s.ParkSites[c] = true
	}
	type res struct{ got, want, desc string }
	results := map[string][]res{}
	pan := Bubble(t, s, func() {
		WorldBOnlyField = true
		worlds := []*World{NewWorld("A"), NewWorld("B")}
		WorldBOnlyField = false
		cache := graphql.NewPlanCache(graphql.PlanCacheOptions{MaxEntries: sc.MaxEntries, Normalize: sc.Normalize})
		for wi, w := range worlds {
			w := w
			name := fmt.Sprintf("c%d", wi+1)
			s.Spawn(name, func(tc *TaskCtx) {
				n := 0
				for round := 0; round < in.Rounds; round++ {
					for _, ri := range in.Reqs {
						rq := c06Reqs[ri]
						var vars map[string]interface{}
						if len(rq.Vars) > 0 {
							vars = rq.Vars[0]
						}
						s.Gate(name, "client:get", rq.Name)
						pr := cache.Get(&w.Schema, rq.Query, rq.Op)
						var got string
						if len(pr.Errors) > 0 || pr.Plan == nil {
							got = MarshalResult(&graphql.Result{Errors: pr.Errors})
						} else {
							got = MarshalResult(graphql.ExecutePlan(pr.Plan, graphql.ExecuteParams{Schema: w.Schema, Args: mergeArgs(vars, pr.SynthArgs), Context: WithTask(c06Ctx(w, rq.Query, rq.Faults), name)}))
						}
						tc.Out[fmt.Sprintf("g%d", n)] = got
						tc.Out[fmt.Sprintf("w%d", n)] = c06Scratch(w, rq, vars)
						tc.Out[fmt.Sprintf("d%d", n)] = rq.Name + "@" + w.ID
						n++
					}
				}
				tc.Out["n"] = fmt.Sprint(n)
			})
		}
		s.Run()
	})
	o.AbsorbSim(s)
	o.KeepTrace(s)
	o.Nontrivial = s.Switches > 0
	o.Probe("interleaved-two-schemas")
	o.Sample = map[string]interface{}{"scenario": sc, "switches": s.Switches}
	_ = results
	if pan != nil || s.Stuck || s.CapHit {
		o.Violate("C06/interleaved-stuck", "the interleaved clients did not finish: %v stuck=%v", pan, s.StuckOn)
		return o
	}
	for _, name := range []string{"c1", "c2"} {
		outs := s.Outs[name]
		for i := 0; outs != nil && outs[fmt.Sprintf("g%d", i)] != ""; i++ {
			got, want := outs[fmt.Sprintf("g%d", i)], outs[fmt.Sprintf("w%d", i)]
			if got == want {
				continue
			}
			reqName, _, _ := strings.Cut(outs[fmt.Sprintf("d%d", i)], "@")
			if sc.Normalize && stripLocations(got) == stripLocations(want) {
				o.Violate("C06/error-locations-of-other-request", "interleaved %s: error locations of another request's text\n cache: %s\n fresh: %s", outs[fmt.Sprintf("d%d", i)], got, want)
			} else {
				o.Violate("C06/differs@"+reqName, "interleaved clients on two same-shape schemas: Get+ExecutePlan of %s differs from executing it from scratch\n cache: %s\n fresh: %s", outs[fmt.Sprintf("d%d", i)], got, want)
			}
		}
	}
	return o
}
