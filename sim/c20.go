package sim

import (
	"context"
	"encoding/json"
	"fmt"
	"github.com/graphql-go/graphql/language/printer"
	"reflect"
	"strconv"
	"strings"

	"github.com/graphql-go/graphql"
	"github.com/graphql-go/graphql/language/ast"
)

// C20 — resolvers are invoked once per selected field with accurate parameters
// (scoped to what depends on history and schedule, DESIGN.md §5 C20).
//
// One plan is prepared once and executed several times, sequentially and by
// interleaved clients, each execution with its own root value, variables,
// context and runtime types; hostile resolvers scribble over what they are
// handed. Every callback checks what it is told against what only this
// execution may have been told.

type c20Req struct {
	Name  string
	Query string
	Vars  []map[string]interface{}
	// Occ is the number of occurrences (included field nodes) merged into the
	// field at a response path (list indices stripped), known by construction.
	Occ map[string]int
	// Golden is the exact response data when the values are constants of the
	// world (default-resolved sources); ExpectArgs gives, per variable set, the
	// coerced arguments a path must receive (known by construction).
	Golden     string
	ExpectArgs []map[string]string
}

var c20Reqs = []c20Req{
	{"lists-abstract", `query($n:Int=2,$s:String){ nodes(n:$n) { id name(up:true) peer { id } ... on A { items(n:2) { n owner { id } } } ... on B { nn { s } } } echo(s:$s, i:3) }`,
		[]map[string]interface{}{v("n", 1, "s", "a"), v("n", 3, "s", "b"), nil}, nil, "", nil},
	{"merged-fields", `{ a { name name2: name(up:true) items(n:2) { n } } a { id items(n:2) { label } } c { matrix } x1 ...F } fragment F on Query { x1 a { name } }`, nil,
		map[string]int{"a": 3, "a.items": 2, "a.name": 2, "x1": 2, "a.id": 1, "c": 1}, "", nil},
	{"var-args-under-list", `query($up:Boolean,$n:Int,$as:String){ nodes(n:3) { name(up:$up) peer(as:$as) { id } ... on A { items(n:$n) { n } } ... on B { nodes(n:$n) { name(up:$up) } } ... on C { name(up:$up) } } }`,
		[]map[string]interface{}{v("up", true, "n", 2, "as", "B"), v("up", false, "n", 1), nil}, nil, "", nil},
	{"runtime-types", `query($as:String){ node(as:$as) { id ... on A { aOnly u { ... on B { bOnly } ... on A { aOnly } } } ... on B { bOnly nodes(n:2) { id } } ... on C { cOnly peer { id } } } }`,
		[]map[string]interface{}{v("as", "A"), v("as", "B"), v("as", "C"), nil}, nil, "", nil},
	{"lists-of-lists", `{ deep { ll { v } l { d { v } } } leafy { li liNN } c { matrix } }`, nil, nil, "", nil},
	{"mutation", `mutation($v:Int){ m1(v:$v) { id nodes(n:2) { id } } s1(v:2) m2(v:5) { name } }`, []map[string]interface{}{v("v", 1), v("v", 9)}, nil, "", nil},
	{"fragments", `query($f:Filter){ ...F echo(f:$f, l:[1,2]) } fragment F on Query { b { ...N nodes(n:2) { ...N } } } fragment N on Node { id peer { id kind } }`,
		[]map[string]interface{}{v("f", map[string]interface{}{"min": 3}), nil, v("f", map[string]interface{}{"kind": "BETA", "tags": []interface{}{"t"}})},
		map[string]int{"b": 1, "b.id": 1, "b.nodes.id": 1, "b.peer": 1}, "", nil},
	{"literal-and-variable-args", `query($i:Int,$n:Int,$s:String){ echo(i:$i, s:"lit") echo2(s:$s, i:4) nodes(n:$n, as:"A") { id } a { items(n:$n) { n } name(up:true) } }`,
		[]map[string]interface{}{v("i", 5, "n", 3, "s", "sv"), v("i", 1, "n", 1), v("s", "only-s")}, nil, "", nil},
	{"typed-fragment-merge", `{ a { ...P } c { ...P } nodes(n:3) { ...P } } fragment P on Node { peer(as:"B") { id } ... on A { peer(as:"B") { ... on B { bOnly } } } ... on C { peer(as:"B") { name } } }`, nil, nil, "", nil},
	{"object-field-merge", `query($as:String){ node(as:$as) { meta { s } ... on A { meta { i } } ... on C { meta { f b } } } nodes(n:3) { meta { s } ... on A { meta { i } } ... on C { meta { f } } } }`,
		[]map[string]interface{}{v("as", "A"), v("as", "B"), v("as", "C")}, nil, "", nil},
	{"static-args", `{ echo(i:1, s:"a", e:BETA, f:{min:2}) echo2(l:[4,5]) a { items(n:3) { n label kind owner { id name kind } } name(up:true) } }`, nil, nil, "", nil},
	{"union-default-resolve", `{ u { ... on A { aOnly items(n:1) { n } } ... on B { bOnly } } b { u { ... on A { id } ... on B { id } } } }`, nil, nil, "", nil},
	{"default-resolved-sources", `{ plainA { name n tag } plainB { name n tag } plainPtr { name n } plainMap { name n tag } plainTagged { name n tag } plainFR { name n } plainFRPtr { name n tag echoArg(x:3) } }`, nil, nil,
		`{"plainA":{"n":1,"name":"a-name","tag":"a-tag"},"plainB":{"n":2,"name":"b-name","tag":"b-tag"},"plainFR":{"n":9,"name":"fr-name"},"plainFRPtr":{"echoArg":3,"n":11,"name":"ptr-name","tag":"ptr-tag"},"plainMap":{"n":3,"name":"map-name","tag":"map-tag-fn"},"plainPtr":{"n":4,"name":"ptr-name"},"plainTagged":{"n":5,"name":"tagged-name","tag":"tagged-tag"}}`, nil},
	{"conditional-duplicates", `query($s:Boolean!,$t:Boolean!){ x1 @skip(if:$s) x1 x2 @include(if:$t) a @skip(if:$s) { name } a { id } a @include(if:$t) { kind } ...F @skip(if:$s) ...F ... @include(if:$t) { ...G } ...G } fragment F on Query { x3 b { id } } fragment G on Query { x4 b { name } }`,
		[]map[string]interface{}{v("s", true, "t", false), v("s", false, "t", true), v("s", true, "t", true), v("s", false, "t", false)}, nil, "", nil},
	{"conditional-duplicates-abstract", `query($s:Boolean!){ nodes(n:3) { id @skip(if:$s) id ... on A @skip(if:$s) { items(n:1) { n } } ... on A { items(n:1) { label } } ...N @skip(if:$s) ...N } } fragment N on Node { name peer { id @include(if:$s) id } }`,
		[]map[string]interface{}{v("s", true), v("s", false)}, nil, "", nil},
	{"literal-off-then-on", `{ a { ...G @skip(if:true) id ...G } nodes(n:2) { ...N @include(if:false) ... on Node { ...N } } ... @skip(if:true) { ...Q } ...Q } fragment G on A { name aOnly } fragment N on Node { id kind } fragment Q on Query { x1 b { id } }`, nil, nil, "", nil},
	{"default-resolved-abstract", `query($x:Int,$s:String){ plainMap { name node { id ... on B { bOnly } } objA { id aOnly } nodes { id ... on C { cOnly } } un { ... on A { aOnly } } } plainFR { name echoArg(x:$x) } plainFRPtr { n } echo(s:$s) ...F } fragment F on Query { x1 }`,
		[]map[string]interface{}{v("x", 4, "s", "q"), v("x", 5, "s", "r")}, nil, "", nil},
	// literal arguments of default-resolved fields whose source resolves its own
	// fields (graphql.FieldResolver) and scribbles over the argument map it is
	// handed: the second execution of the plan must see the literals again
	{"fieldresolver-literal-args", `{ plainFR { echoArg(x:5, y:2) e2: echoArg(x:1) name } p2: plainFR { echoArg(x:5, y:2) } plainFRPtr { echoArg(x:7, y:1) } }`, nil, nil,
		`{"p2":{"echoArg":5002},"plainFR":{"e2":1000,"echoArg":5002,"name":"fr-name"},"plainFRPtr":{"echoArg":7}}`, nil},
	// an abstract type without a type resolver whose members' IsTypeOf functions
	// overlap (the first declared member that accepts wins, whatever was
	// completed before): single values and lists mixing both members
	{"istypeof-overlap", `query($as:String){ fcs(n:4) { ... on First { id title } ... on Catch { id kind } } fc(as:$as) { ... on First { title } ... on Catch { title kind } } f1: fc(as:"Catch") { ... on Catch { id } ... on First { id title } } f2: fc(as:"First") { ... on Catch { id } ... on First { id title } } more: fcs(n:3, as:"First") { ... on First { title } ... on Catch { kind } } }`,
		[]map[string]interface{}{v("as", "Catch"), v("as", "First"), nil}, nil, "", nil},
	// one named fragment (with nested object fields) spread in several places of
	// the same parent type under different variable-driven conditions
	{"fragment-places-conditions", `query($a:Boolean!,$b:Boolean!){ l: a { ...G @include(if:$a) id } r: a { ...G @include(if:$b) id } b { ... @skip(if:$a) { ...N } id } b2: b { ... @skip(if:$b) { ...N } id } nodes(n:2, as:"A") { ...G @skip(if:$a) } n2: nodes(n:2, as:"A") { ...G @skip(if:$b) } } fragment G on A { leafy { s i } items(n:1) { n owner { id } } } fragment N on Node { peer { id kind peer { id } } }`,
		[]map[string]interface{}{v("a", false, "b", true), v("a", true, "b", false), v("a", true, "b", true), v("a", false, "b", false)}, nil, "", nil},
	{"object-literal-with-variable", `query($t:String!, $m:Int){ echo(f:{min:1, tags:[$t]}, i:4) echo2(f:{min:$m, kind:BETA, tags:["k"]}, l:[1,$m]) }`,
		[]map[string]interface{}{v("t", "z", "m", 6), v("t", "y", "m", 2)}, nil, "",
		[]map[string]string{
			{"echo": `{"f":{"kind":1,"min":1,"tags":["z"]},"i":4}`, "echo2": `{"f":{"kind":"b","min":6,"tags":["k"]},"fd":{"min":3,"st":"dflt","tags":["d"]},"i":7,"l":[1,6]}`},
			{"echo": `{"f":{"kind":1,"min":1,"tags":["y"]},"i":4}`, "echo2": `{"f":{"kind":"b","min":2,"tags":["k"]},"fd":{"min":3,"st":"dflt","tags":["d"]},"i":7,"l":[1,2]}`},
		}},
}

type C20Exec struct {
	Vars    int               `json:"vars"`
	Variant uint64            `json:"variant"`
	Faults  map[string]string `json:"faults,omitempty"`
}

type C20Scn struct {
	Req     int         `json:"req"`
	Gen     *GenDoc     `json:"gen,omitempty"` // a generated document (gendoc.go) in place of the pool request
	Entry   string      `json:"entry"`         // plan | cache | cache-norm | execute
	Clients [][]C20Exec `json:"clients"`
	Park    []string    `json:"park"`
	Sticky  int         `json:"stickiness"`
	// ExtPlan, when set, registers one instrumented extension whose hooks
	// panic according to the plan (keys like "E1.RS@<path>")
	ExtPlan map[string]string `json:"ext_plan,omitempty"`
}

// c20ReqOf is the request of a scenario: a pool request or the generated document.
func c20ReqOf(sc *C20Scn) c20Req {
	if sc.Gen == nil {
		return c20Reqs[sc.Req]
	}
	return c20Req{Name: "generated", Query: sc.Gen.Query, Vars: []map[string]interface{}{normaliseJSONInts(sc.Gen.Vars).(map[string]interface{})}}
}

type c20 struct{}

func init() { Register(c20{}) }

func (c20) ID() string               { return "C20" }
func (c20) EnumSize(tier string) int { return 0 }

var c20AllPark = []string{"resolver", "rtype", "plan.exec.start", "plan.exec.send", "plan.abstract.lock", "client"}

// c20Paths returns the resolver paths of the fault-free solo run (for fault placement).
var c20PathCache = map[string][]string{}

func c20Paths(rq c20Req, vars int, variant uint64) []string {
	key := fmt.Sprintf("%s/%d/%d", rq.Query, vars, variant)
	if p, ok := c20PathCache[key]; ok {
		return p
	}
	if len(c20PathCache) > 5000 {
		c20PathCache = map[string][]string{}
	}
	w := NewWorld("A")
	rc := &ReqCtx{Task: "dry", W: w, Variant: variant}
	var vs map[string]interface{}
	if vars < len(rq.Vars) {
		vs = rq.Vars[vars]
	}
	graphql.Do(graphql.Params{Schema: w.Schema, RequestString: rq.Query, VariableValues: vs, Context: WithReq(context.Background(), rc)})
	p := SortedKeys(rc.Seen)
	c20PathCache[key] = p
	return p
}

func (p c20) Gen(seed uint64, enum int, tier string) json.RawMessage {
	r := NewRNG(seed)
	s := C20Scn{Req: r.Intn(len(c20Reqs)), Sticky: []int{0, 30, 60, 85}[r.Intn(4)]}
	s.Entry = []string{"plan", "plan", "cache", "cache-norm", "execute"}[r.Intn(5)]
	nc := 1 + r.Intn(3)
	rq := c20Reqs[s.Req]
	if r.Chance(35) {
		gd := GenQueryDoc(r, c04GenWorld(), 6+r.Intn(25), true)
		s.Gen = &gd
		rq = c20ReqOf(&s)
	}
	for c := 0; c < nc; c++ {
		var execs []C20Exec
		for n := 1 + r.Intn(3); n > 0; n-- {
			e := C20Exec{Variant: r.Uint64() % 5}
			if len(rq.Vars) > 0 {
				e.Vars = r.Intn(len(rq.Vars))
			}
			if r.Chance(45) {
				paths := c20Paths(rq, e.Vars, e.Variant)
				e.Faults = map[string]string{}
				for k := 1 + r.Intn(3); k > 0 && len(paths) > 0; k-- {
					e.Faults["R@"+paths[r.Intn(len(paths))]] = []string{FHostile, FHostile, FHostileVars, FThunk}[r.Intn(4)]
				}
			}
			execs = append(execs, e)
		}
		s.Clients = append(s.Clients, execs)
	}
	if r.Chance(25) {
		paths := c20Paths(rq, 0, 0)
		s.ExtPlan = map[string]string{}
		if len(paths) > 0 && r.Chance(70) {
			s.ExtPlan["E1."+[]string{"RS", "RE"}[r.Intn(2)]+"@"+paths[r.Intn(len(paths))]] = []string{"error", "string"}[r.Intn(2)]
		}
	}
	if nc > 1 {
		for _, c := range c20AllPark {
			if r.Chance(65) {
				s.Park = append(s.Park, c)
			}
		}
	}
	return mustJSON(s)
}

func (c20) Shrink(scn json.RawMessage) []json.RawMessage {
	var s C20Scn
	json.Unmarshal(scn, &s)
	var out []json.RawMessage
	for i := range s.Clients {
		if len(s.Clients) > 1 {
			t := s
			t.Clients = append(append([][]C20Exec(nil), s.Clients[:i]...), s.Clients[i+1:]...)
			out = append(out, mustJSON(t))
		}
		for j := range s.Clients[i] {
			if len(s.Clients[i]) > 1 {
				t := s
				t.Clients = append([][]C20Exec(nil), s.Clients...)
				t.Clients[i] = append(append([]C20Exec(nil), s.Clients[i][:j]...), s.Clients[i][j+1:]...)
				out = append(out, mustJSON(t))
			}
			if len(s.Clients[i][j].Faults) > 0 {
				t := s
				t.Clients = append([][]C20Exec(nil), s.Clients...)
				t.Clients[i] = append([]C20Exec(nil), s.Clients[i]...)
				e := t.Clients[i][j]
				e.Faults = nil
				t.Clients[i][j] = e
				out = append(out, mustJSON(t))
			}
		}
	}
	return out
}

// c20State is what one execution may legitimately be told.
type c20State struct {
	query  string
	vtypes map[string]string
	w       *World
	root    Tok
	doc     *ast.Document // nil when the document the plan was built from is not the caller's (normalising cache)
	fields  map[*ast.Field]bool
	op      ast.Definition
	frags   map[string]ast.Definition
	rootTyp string
	occ     map[string]int
	vars    map[string]interface{} // the variables as supplied for this execution
}

func collectFields(sel *ast.SelectionSet, into map[*ast.Field]bool) {
	if sel == nil {
		return
	}
	for _, s := range sel.Selections {
		switch n := s.(type) {
		case *ast.Field:
			into[n] = true
			collectFields(n.SelectionSet, into)
		case *ast.InlineFragment:
			collectFields(n.SelectionSet, into)
		}
	}
}

func responseKey(f *ast.Field) string {
	if f.Alias != nil && f.Alias.Value != "" {
		return f.Alias.Value
	}
	if f.Name != nil {
		return f.Name.Value
	}
	return ""
}

func lastSeg(p string) string {
	if i := strings.LastIndexByte(p, '.'); i >= 0 {
		return p[i+1:]
	}
	return p
}

// parentObjectPath returns the path of the object value a field at path p is
// resolved on (strips the field's own key).
func parentObjectPath(p string) string { return parentPath(p) }

func jsonOf(v interface{}) string {
	b, err := json.Marshal(normalizeForJSON(v))
	if err != nil {
		return "!" + err.Error()
	}
	return string(b)
}

// c20Check is installed as ReqCtx.Check: it runs inside every resolver.
func (st *c20State) check(rc *ReqCtx, p *graphql.ResolveParams, path string) {
	bad := func(format string, a ...interface{}) {
		rc.bad(fmt.Sprintf("%s: ", path) + fmt.Sprintf(format, a...))
	}
	info := p.Info
	// source linkage
	pp := parentObjectPath(path)
	var srcTok Tok
	switch s := p.Source.(type) {
	case Tok:
		srcTok = s
	case *Tok:
		if s != nil {
			srcTok = *s
		}
	default:
		bad("source is %T %v, expected the token its parent resolved to", p.Source, p.Source)
		return
	}
	if pp == "" {
		if srcTok != st.root {
			bad("top-level source is %v, expected this request's root value %v", srcTok, st.root)
		}
	} else {
		if srcTok.P != pp {
			bad("source is the token produced at %q, expected the one produced at the parent position %q", srcTok.P, pp)
		}
		if srcTok.R != rc.Req {
			bad("source token belongs to execution %d, this is execution %d", srcTok.R, rc.Req)
		}
	}
	// parent type: the runtime object type of the parent value
	wantParent := srcTok.T
	if info.ParentType == nil || info.ParentType.Name() != wantParent {
		bad("Info.ParentType is %v, expected the runtime type %s of the parent value", info.ParentType, wantParent)
	}
	// field name, return type
	obj := st.w.Obj[wantParent]
	if obj != nil {
		if fd, ok := obj.Fields()[info.FieldName]; !ok {
			bad("Info.FieldName %q is not a field of %s", info.FieldName, wantParent)
		} else if fd.Type != info.ReturnType {
			bad("Info.ReturnType is %v, the field's declared type is %v", info.ReturnType, fd.Type)
		}
	}
	// path and occurrences
	if len(info.FieldASTs) == 0 {
		bad("Info.FieldASTs is empty")
	} else {
		key := responseKey(info.FieldASTs[0])
		if lastSeg(path) != key {
			bad("Info.Path ends in %q but the first occurrence has response key %q", lastSeg(path), key)
		}
		if want, ok := st.occ[stripIndices(path)]; ok && len(info.FieldASTs) != want {
			bad("Info.FieldASTs has %d occurrences, the document selects this field %d times", len(info.FieldASTs), want)
		}
		for _, f := range info.FieldASTs {
			if f == nil {
				bad("nil occurrence in Info.FieldASTs")
				continue
			}
			if responseKey(f) != key || f.Name == nil || f.Name.Value != info.FieldName {
				bad("occurrence %v does not share response key %q / field name %q", responseKey(f), key, info.FieldName)
			}
			if st.fields != nil && !st.fields[f] {
				bad("an occurrence in Info.FieldASTs is not a node of this request's document")
			}
		}
	}
	// request-level values
	st.requestLevel(bad, info)
	// an argument the document does not supply carries the default declared by
	// the field of the parent's RUNTIME type
	if obj != nil && len(info.FieldASTs) > 0 && info.FieldASTs[0] != nil {
		if fd, ok := obj.Fields()[info.FieldName]; ok {
			supplied := map[string]bool{}
			for _, a := range info.FieldASTs[0].Arguments {
				if a != nil && a.Name != nil {
					supplied[a.Name.Value] = true
				}
			}
			for _, ad := range fd.Args {
				if ad.DefaultValue == nil || supplied[ad.PrivateName] {
					continue
				}
				if got, ok := p.Args[ad.PrivateName]; !ok || (!reflect.DeepEqual(got, ad.DefaultValue) && got != "POISON") {
					bad("argument %s is not supplied, %s.%s declares the default %v, the resolver received %v", ad.PrivateName, wantParent, info.FieldName, ad.DefaultValue, got)
				}
			}
		}
	}
	// an argument whose value is exactly `$var` carries what was supplied for the
	// variable (plain Int / String / Boolean values coerce to themselves)
	if len(info.FieldASTs) > 0 && info.FieldASTs[0] != nil {
		for _, a := range info.FieldASTs[0].Arguments {
			vr, ok := a.Value.(*ast.Variable)
			if !ok || a.Name == nil || vr.Name == nil || strings.HasPrefix(vr.Name.Value, "__pcv") {
				continue
			}
			supplied, has := st.vars[vr.Name.Value]
			if !has {
				continue
			}
			if st.query != "" {
				switch st.varTypes()[vr.Name.Value] {
				case "Int", "String", "Boolean":
				default:
					continue // enum names, custom scalars, IDs coerce to other values
				}
			}
			switch supplied.(type) {
			case int, string, bool:
				if got := p.Args[a.Name.Value]; got != supplied && got != "POISON" && !(fmt.Sprint(got) == "POISON"+strconv.Itoa(rc.Req)+rc.Task) {
					bad("argument %s is fed by $%s = %v but the resolver received %v", a.Name.Value, vr.Name.Value, supplied, got)
				}
			}
		}
	}
	if _, poisoned := p.Args["__poison"]; poisoned {
		bad("Args contains a key written by another resolver invocation: %v", p.Args)
	}
	for k, a := range p.Args {
		if a == "POISON" {
			bad("Args[%s] was overwritten by another resolver invocation", k)
		}
	}
	for k, a := range info.VariableValues {
		if s, ok := a.(string); ok && strings.HasPrefix(s, "POISON") && s != "POISON"+strconv.Itoa(rc.Req)+rc.Task {
			bad("Info.VariableValues[%s] = %q was written by another execution", k, s)
		}
	}
	rc.mu.Lock()
	if rc.ArgLog == nil {
		rc.ArgLog = map[string]string{}
	}
	rc.ArgLog[path] = jsonOf(p.Args)
	rc.mu.Unlock()
}

// requestLevel judges the parts of an info that are the same for every call
// of one execution: root value, operation, fragments, schema, variable values.
func (st *c20State) requestLevel(bad func(string, ...interface{}), info graphql.ResolveInfo) {
	if rv, ok := info.RootValue.(Tok); !ok || rv != st.root {
		bad("Info.RootValue is %v, expected %v", info.RootValue, st.root)
	}
	if st.doc != nil {
		if info.Operation != st.op {
			bad("Info.Operation is not this request's operation")
		}
		for name, f := range st.frags {
			if info.Fragments[name] != f {
				bad("Info.Fragments[%s] is not this document's fragment", name)
			}
		}
		if len(info.Fragments) != len(st.frags) {
			bad("Info.Fragments has %d entries, the document defines %d", len(info.Fragments), len(st.frags))
		}
	}
	if info.Schema.QueryType() != st.w.Obj["Query"] {
		bad("Info.Schema is not the schema the request runs against")
	}
	// supplied plain values of the built-in scalar types coerce to themselves
	varType := st.varTypes()
	for name, supplied := range st.vars {
		switch varType[name] {
		case "Int", "String", "Boolean":
		default:
			continue
		}
		switch supplied.(type) {
		case int, string, bool:
			got, ok := info.VariableValues[name]
			if s, isStr := got.(string); isStr && strings.HasPrefix(s, "POISON") {
				continue
			}
			if !ok || got != supplied {
				bad("Info.VariableValues[%s] is %v (present=%v), the request supplied %v", name, got, ok, supplied)
			}
		}
	}
}

// varTypes gives the declared type (without "!") of the operation's variables
// (from the request text: the cache entries parse it themselves).
func (st *c20State) varTypes() map[string]string {
	if st.vtypes != nil {
		return st.vtypes
	}
	st.vtypes = map[string]string{}
	doc, err := parseDoc(st.query)
	if err != nil {
		return st.vtypes
	}
	for _, def := range doc.Definitions {
		if op, ok := def.(*ast.OperationDefinition); ok {
			for _, vd := range op.GetVariableDefinitions() {
				if vd != nil && vd.Variable != nil && vd.Variable.Name != nil && vd.Type != nil {
					st.vtypes[vd.Variable.Name.Value] = strings.Trim(fmt.Sprint(printer.Print(vd.Type)), "!")
				}
			}
		}
	}
	return st.vtypes
}

func (st *c20State) withQuery(q string) *c20State {
	st.query = q
	return st
}

// checkInfo is installed as ReqCtx.CheckInfo: the info that type resolvers,
// isTypeOf functions and FieldResolver sources receive.
func (st *c20State) checkInfo(rc *ReqCtx, who, path string, info graphql.ResolveInfo) {
	bad := func(format string, a ...interface{}) {
		rc.bad(fmt.Sprintf("%s: %s: ", path, who) + fmt.Sprintf(format, a...))
	}
	if PathString(info.Path) != path || info.FieldName == "" || len(info.FieldASTs) == 0 {
		bad("the info does not describe the field (name %q, path %q)", info.FieldName, PathString(info.Path))
		return
	}
	if lastSeg(stripIndices(path)) != responseKey(info.FieldASTs[0]) {
		bad("Info.Path ends in %q but the first occurrence has response key %q", lastSeg(stripIndices(path)), responseKey(info.FieldASTs[0]))
	}
	if info.ParentType == nil || info.ReturnType == nil {
		bad("Info.ParentType / ReturnType missing")
	} else if fd, ok := info.ParentType.(*graphql.Object); ok {
		if f, has := fd.Fields()[info.FieldName]; !has || f.Type != info.ReturnType {
			bad("Info.ReturnType %v is not the declared type of %s.%s", info.ReturnType, fd.Name(), info.FieldName)
		}
	}
	st.requestLevel(bad, info)
}

// varsSansPoison renders variable values without this execution's own scribbles.
func varsSansPoison(m map[string]interface{}) string {
	out := map[string]interface{}{}
	for k, a := range m {
		if s, ok := a.(string); ok && strings.HasPrefix(s, "POISON") {
			continue
		}
		out[k] = a
	}
	return jsonOf(out)
}

type c20Solo struct {
	args   map[string]string
	result string
}

// c20RunSolo executes one execution alone, from scratch, on a cold schema.
func c20World(extPlan map[string]string) *World {
	if extPlan == nil {
		return NewWorld("A")
	}
	return NewWorld("A", &SimExt{N: "E1", R: &ExtRun{Plan: extPlan, HasResult: map[string]bool{}}})
}

func c20RunSolo(rq c20Req, e C20Exec, ord int, task string, extPlan map[string]string) c20Solo {
	w := c20World(extPlan)
	doc, _ := parseDoc(rq.Query)
	root := Tok{T: c07Root(rq.Query), P: "", R: ord}
	st := newC20State(w, doc, root, rq.Occ).withQuery(rq.Query)
	rc := &ReqCtx{Task: task, Req: ord, W: w, Variant: e.Variant, Faults: e.Faults, RootTok: root}
	rc.Check = st.check
	rc.CheckInfo = st.checkInfo
	var vs map[string]interface{}
	if e.Vars < len(rq.Vars) {
		vs = rq.Vars[e.Vars]
	}
	st.vars = vs
	res := graphql.Execute(graphql.ExecuteParams{Schema: w.Schema, Root: root, AST: doc, Args: vs, Context: WithReq(context.Background(), rc)})
	rc.mu.Lock()
	defer rc.mu.Unlock()
	return c20Solo{args: rc.ArgLog, result: MarshalResult(res)}
}

func (st *c20State) withVars(vs map[string]interface{}) *c20State {
	st.vars = vs
	return st
}

func stripIndices(p string) string {
	var out []string
	for _, seg := range splitPath(p) {
		if _, err := strconv.Atoi(seg); err != nil {
			out = append(out, seg)
		}
	}
	return strings.Join(out, ".")
}

func newC20State(w *World, doc *ast.Document, root Tok, occ map[string]int) *c20State {
	st := &c20State{w: w, root: root, doc: doc, rootTyp: root.T, occ: occ}
	if doc != nil {
		st.fields = map[*ast.Field]bool{}
		st.frags = map[string]ast.Definition{}
		for _, d := range doc.Definitions {
			switch n := d.(type) {
			case *ast.OperationDefinition:
				st.op = n
				collectFields(n.SelectionSet, st.fields)
			case *ast.FragmentDefinition:
				st.frags[n.Name.Value] = n
				collectFields(n.SelectionSet, st.fields)
			}
		}
	}
	return st
}

// c20SubscribeParams checks what the Subscribe resolver of a subscription's root
// field is told (it is a resolver like any other: coerced arguments, accurate info,
// the caller's context).
func c20SubscribeParams(o *Outcome) {
	w := NewWorld("A")
	root := map[string]interface{}{"tok": "root"}
	rc := &ReqCtx{Task: "c1", Req: 1, W: w}
	ctx := WithReq(context.Background(), rc)
	var bad []string
	calls := 0
	w.SubSource = func(p graphql.ResolveParams) (interface{}, error) {
		calls++
		if got, want := jsonOf(p.Args), `{"k":"b","n":2,"st":"stamp\u003cs9\u003e"}`; got != want {
			bad = append(bad, "Args are "+got+", the coerced arguments are "+want)
		}
		if ReqOf(p.Context) != rc {
			bad = append(bad, "the caller's context did not reach the Subscribe resolver")
		}
		if p.Info.FieldName != "events" || PathString(p.Info.Path) != "ev" || len(p.Info.FieldASTs) != 1 || respKey(p.Info.FieldASTs[0]) != "ev" {
			bad = append(bad, fmt.Sprintf("info names field %q at path %q with %d occurrences", p.Info.FieldName, PathString(p.Info.Path), len(p.Info.FieldASTs)))
		}
		if p.Info.ParentType == nil || p.Info.ParentType.Name() != "Subscription" || p.Info.ReturnType != w.Obj["B"] {
			bad = append(bad, fmt.Sprintf("ParentType %v / ReturnType %v", p.Info.ParentType, p.Info.ReturnType))
		}
		if jsonOf(p.Info.VariableValues) != `{"k":"b","n":2,"st":"stamp\u003cs9\u003e"}` {
			bad = append(bad, "Info.VariableValues are "+jsonOf(p.Info.VariableValues))
		}
		if !reflect.DeepEqual(p.Source, root) || !reflect.DeepEqual(p.Info.RootValue, root) {
			bad = append(bad, fmt.Sprintf("Source %v / RootValue %v, the request's root is %v", p.Source, p.Info.RootValue, root))
		}
		c := make(chan interface{})
		close(c)
		return c, nil
	}
	ch := graphql.Subscribe(graphql.Params{Schema: w.Schema, RequestString: `subscription($k:Kind, $n:Int = 2, $st:Stamp){ ev: events(k:$k, n:$n, st:$st) { id } }`,
		RootObject: root, VariableValues: map[string]interface{}{"k": "BETA", "st": "s9"}, Context: ctx})
	for range ch {
	}
	if calls != 1 {
		o.Violate("C20/subscribe-params", "the Subscribe resolver was called %d times", calls)
	}
	for _, b := range bad {
		o.Violate("C20/subscribe-params", "Subscribe resolver of Subscription.events: %s", b)
	}
}

func (c20) Run(t TestingT, scn json.RawMessage, tape *Tape) *Outcome {
	var sc C20Scn
	if err := json.Unmarshal(scn, &sc); err != nil {
		return &Outcome{Infra: "bad scenario: " + err.Error()}
	}
	o := &Outcome{}
	rq := c20ReqOf(&sc)
	if sc.Req == 0 && sc.Gen == nil {
		// (piggy-backed on one request of the pool: a fixed-input check)
		c20SubscribeParams(o)
	}
	// solo references; execution ordinals are global so tokens identify their execution
	type slot struct{ ci, ei, ord int }
	var slots []slot
	ord := 0
	for ci, cl := range sc.Clients {
		for ei := range cl {
			ord++
			slots = append(slots, slot{ci, ei, ord})
		}
	}
	solo := map[int]c20Solo{}
	for _, sl := range slots {
		solo[sl.ord] = c20RunSolo(rq, sc.Clients[sl.ci][sl.ei], sl.ord, fmt.Sprintf("c%d", sl.ci+1), sc.ExtPlan)
	}

	s := NewSim(tape)
	s.Stickiness = sc.Sticky
	s.StepCap = 6000
	for _, c := range sc.Park {
		s.ParkSites[c] = true
	}
	type execOut struct {
		rc     *ReqCtx
		result string
	}
	results := map[int]*execOut{}
	var noCtx int64
	pan := Bubble(t, s, func() {
		w := c20World(sc.ExtPlan)
		defer func() { noCtx = w.NoCtx.Load() }()
		doc, err := parseDoc(rq.Query)
		if err != nil {
			panic("c20: pool query does not parse")
		}
		var plan *graphql.Plan
		var cache *graphql.PlanCache
		switch sc.Entry {
		case "plan":
			plan, err = graphql.PlanQuery(&w.Schema, doc, "")
			if err != nil {
				panic("c20: pool query does not plan: " + err.Error())
			}
		case "cache":
			cache = graphql.NewPlanCache(graphql.PlanCacheOptions{})
		case "cache-norm":
			cache = graphql.NewPlanCache(graphql.PlanCacheOptions{Normalize: true})
		}
		ordOf := map[[2]int]int{}
		for _, sl := range slots {
			ordOf[[2]int{sl.ci, sl.ei}] = sl.ord
			results[sl.ord] = &execOut{}
		}
		for ci := range sc.Clients {
			ci := ci
			name := fmt.Sprintf("c%d", ci+1)
			s.Spawn(name, func(tc *TaskCtx) {
				for ei, e := range sc.Clients[ci] {
					n := ordOf[[2]int{ci, ei}]
					s.Gate(name, "client:exec", strconv.Itoa(n))
					root := Tok{T: c07Root(rq.Query), P: "", R: n}
					var vs map[string]interface{}
					if e.Vars < len(rq.Vars) {
						vs = rq.Vars[e.Vars]
					}
					rc := &ReqCtx{Task: name, Req: n, W: w, Variant: e.Variant, Faults: e.Faults, Gates: true, RootTok: root}
					ctx := WithReq(WithTask(context.Background(), name), rc)
					var res *graphql.Result
					switch sc.Entry {
					case "plan":
						st := newC20State(w, doc, root, rq.Occ).withVars(vs).withQuery(rq.Query)
						rc.Check, rc.CheckInfo = st.check, st.checkInfo
						res = graphql.ExecutePlan(plan, graphql.ExecuteParams{Schema: w.Schema, Root: root, Args: vs, Context: ctx})
					case "cache", "cache-norm":
						// the cache parses the text itself: occurrences are nodes of its own document
						st := newC20State(w, nil, root, rq.Occ).withVars(vs).withQuery(rq.Query)
						rc.Check, rc.CheckInfo = st.check, st.checkInfo
						pr := cache.Get(&w.Schema, rq.Query, "")
						if pr.Plan == nil {
							res = &graphql.Result{Errors: pr.Errors}
						} else {
							res = graphql.ExecutePlan(pr.Plan, graphql.ExecuteParams{Schema: w.Schema, Root: root, Args: mergeArgs(vs, pr.SynthArgs), Context: ctx})
						}
					default:
						st := newC20State(w, doc, root, rq.Occ).withVars(vs).withQuery(rq.Query)
						rc.Check, rc.CheckInfo = st.check, st.checkInfo
						res = graphql.Execute(graphql.ExecuteParams{Schema: w.Schema, Root: root, AST: doc, Args: vs, Context: ctx})
					}
					results[n].rc = rc
					results[n].result = MarshalResult(res)
				}
			})
		}
		s.Run()
	})
	o.AbsorbSim(s)
	o.KeepTrace(s)
	nExec := len(slots)
	o.Nontrivial = nExec > 1
	o.Sample = map[string]interface{}{"scenario": sc, "executions": nExec}
	if pan != nil {
		o.Violate("C20/panic-or-blocked", "the bubble ended with: %v", pan)
		return o
	}
	if s.Stuck || s.CapHit {
		o.Violate("C20/deadlock", "clients did not finish: %v", s.StuckOn)
		return o
	}
	if noCtx > 0 {
		o.Violate("C20/context-lost", "%d callback invocations did not receive the request's context", noCtx)
	}
	if nExec > 1 && sc.Entry != "execute" {
		o.Probe("plan-reused")
	}
	if len(sc.Clients) > 1 && s.Switches > 0 {
		o.Probe("interleaved-reuse")
	}
	for _, sl := range slots {
		ex := results[sl.ord]
		if ex.rc == nil {
			o.Violate("C20/client-unfinished", "execution %d did not run", sl.ord)
			continue
		}
		_, fired, seen, bad := ex.rc.Snapshot()
		for k, n := range fired {
			o.Fire(k, n)
		}
		for _, b := range bad {
			o.Violate("C20/inaccurate-params", "execution %d (%s, client c%d): %s", sl.ord, sc.Entry, sl.ci+1, b)
			break
		}
		// the path a resolver was given stays what it was
		ex.rc.mu.Lock()
		for p, arr := range ex.rc.PathArrs {
			parts := make([]string, len(arr))
			for i, k := range arr {
				parts[i] = fmt.Sprint(k)
			}
			if got := strings.Join(parts, "."); got != p {
				o.Violate("C20/path-changed-after-call", "execution %d: the response path handed to the resolver of %q reads %q afterwards", sl.ord, p, got)
				break
			}
		}
		ex.rc.mu.Unlock()
		for p, n := range seen {
			if n > 1 {
				o.Violate("C20/resolved-twice", "execution %d: the field at %q was resolved %d times", sl.ord, p, n)
			}
		}
		// Under the normalising cache literals travel as variables, so a resolver
		// that scribbles over this execution's own VariableValues legitimately
		// changes what later resolvers of the same execution receive; only the
		// isolation between executions is judged then.
		ownVarsPoisoned := false
		if sc.Entry == "cache-norm" {
			for _, f := range sc.Clients[sl.ci][sl.ei].Faults {
				if f == FHostileVars {
					ownVarsPoisoned = true
				}
			}
		}
		if ownVarsPoisoned {
			continue
		}
		ref := solo[sl.ord]
		ex.rc.mu.Lock()
		args := ex.rc.ArgLog
		ex.rc.mu.Unlock()
		// the normalising cache hands literals back as variables: the coerced
		// arguments must still be the same
		for _, p := range SortedKeys(ref.args) {
			got, ok := args[p]
			if !ok {
				o.Violate("C20/field-not-resolved", "execution %d: %q was resolved when run alone but not here", sl.ord, p)
				break
			}
			if got != ref.args[p] {
				o.Violate("C20/wrong-args", "execution %d: %q received arguments %s, run alone it receives %s", sl.ord, p, got, ref.args[p])
				break
			}
		}
		for _, p := range SortedKeys(args) {
			if _, ok := ref.args[p]; !ok {
				o.Violate("C20/extra-field-resolved", "execution %d: %q was resolved here but not when run alone", sl.ord, p)
				break
			}
		}
		{
			var dec struct {
				Data interface{} `json:"data"`
			}
			json.Unmarshal([]byte(ex.result), &dec)
			ex.rc.mu.Lock()
			typeAt := map[string]string{}
			for k, v := range ex.rc.TypeAt {
				typeAt[k] = v
			}
			ex.rc.mu.Unlock()
			var vs map[string]interface{}
			if e := sc.Clients[sl.ci][sl.ei]; e.Vars < len(rq.Vars) {
				vs = rq.Vars[e.Vars]
			}
			// (a resolver that scribbles over this execution's own variable
			// values changes what later @skip/@include decisions of the same
			// execution see: the selection is then not a function of the request)
			varsPoisoned := false
			for _, f := range sc.Clients[sl.ci][sl.ei].Faults {
				if f == FHostileVars {
					varsPoisoned = true
				}
			}
			if doc, err := parseDoc(rq.Query); err == nil && !varsPoisoned {
				if msg := CheckSelectedKeys(doc, "", vs, c07Root(rq.Query), dec.Data, typeAt, NewWorldPossible()); msg != "" {
					o.Violate("C20/unselected-or-missing-key", "execution %d: %s\n response: %s", sl.ord, msg, ex.result)
				}
			}
		}
		if rq.Golden != "" && !strings.Contains(ex.result, `"data":`+rq.Golden) {
			o.Violate("C20/wrong-constant-data", "execution %d: the default-resolved sources must yield %s, got %s", sl.ord, rq.Golden, ex.result)
		}
		if e := sc.Clients[sl.ci][sl.ei]; e.Vars < len(rq.ExpectArgs) && len(e.Faults) == 0 {
			for p, want := range rq.ExpectArgs[e.Vars] {
				if got := args[p]; got != want {
					o.Violate("C20/wrong-args", "execution %d: %q received arguments %s, the coerced arguments of the field are %s", sl.ord, p, got, want)
				}
			}
		}
		if ex.result != ref.result {
			o.Violate("C20/response-differs", "execution %d: response differs from the same execution run alone\n  got: %s\n solo: %s", sl.ord, ex.result, ref.result)
		}
	}
	_ = reflect.DeepEqual
	return o
}
