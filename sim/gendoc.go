package sim

import (
	"fmt"
	"sort"
	"strings"

	"github.com/graphql-go/graphql"
)

// A seeded generator of valid query documents over the simulated world's
// schema: nested selections, arguments as literals or variables, aliases,
// repeated fields, inline fragments (typed, bare, with directives), named
// fragments spread once or several times, @skip/@include with literal and
// variable conditions, __typename. It is driven by the schema's own type
// objects, so it follows the world when the world grows.
//
// Validity is by construction: a response key is bound to one (field,
// arguments, type) signature for the whole document (anything else gets a
// fresh alias), fragments are spread only where their type condition can
// apply, every variable used is declared with the type of the position it
// feeds, and abstract runtime types are chosen among the possible types.

type GenDoc struct {
	Query string                 `json:"query"`
	Vars  map[string]interface{} `json:"vars,omitempty"`
}

type docGen struct {
	r      *RNG // structure
	lr     *RNG // scalar literal values (two documents of one structure differ in these only)
	w      *World
	keys   map[string]string // response key -> signature
	nAlias int
	frags  []string
	fragOn map[string][]string // type name -> fragment names defined on it
	nFrag  int
	decls  []string
	vars   map[string]interface{}
	nVar   int
	budget int
	// condVars makes @skip/@include use variables (else literals only)
	condVars bool
}

// GenQueryDoc generates one query document. size bounds the number of fields.
func GenQueryDoc(r *RNG, w *World, size int, condVars bool) GenDoc {
	return GenQueryDoc2(r, NewRNG(r.Uint64()), w, size, condVars)
}

// GenQueryDoc2 draws the structure from r and the scalar literal values from lr.
func GenQueryDoc2(r, lr *RNG, w *World, size int, condVars bool) GenDoc {
	g := &docGen{r: r, lr: lr, w: w, keys: map[string]string{}, fragOn: map[string][]string{}, vars: map[string]interface{}{}, budget: size, condVars: condVars}
	body := g.selection(w.Obj["Query"], 0, true)
	head := ""
	if len(g.decls) > 0 {
		head = "query(" + strings.Join(g.decls, ", ") + ")"
	}
	q := head + "{ " + body + " }"
	if len(g.frags) > 0 {
		q += " " + strings.Join(g.frags, " ")
	}
	return GenDoc{Query: q, Vars: g.vars}
}

var genSkipFields = map[string]bool{
	"plainRoot": true, // reads the request's root value
	"echoArg":   true, // only FieldResolver sources resolve it
}

func sortedFieldNames(o *graphql.Object) []string {
	var names []string
	for n, fd := range o.Fields() {
		if o.Name() == "Plain" && !isLeafField(fd) {
			continue // only some sources of Plain have them
		}
		if !genSkipFields[n] && !strings.HasPrefix(n, "__") {
			names = append(names, n)
		}
	}
	sort.Strings(names)
	return names
}

func unwrapType(t graphql.Type) graphql.Type {
	for {
		switch tt := t.(type) {
		case *graphql.NonNull:
			t = tt.OfType
		case *graphql.List:
			t = tt.OfType
		default:
			return t
		}
	}
}

func (g *docGen) condition() string {
	if g.condVars && g.r.Chance(60) {
		g.nVar++
		name := fmt.Sprintf("c%d", g.nVar)
		val := g.r.Chance(50)
		decl := "$" + name + ":Boolean"
		if g.r.Chance(30) {
			decl += fmt.Sprintf("=%v", val) // the supplied value and the default agree
		} else {
			decl += "!"
		}
		g.decls = append(g.decls, decl)
		g.vars[name] = val
		if g.r.Chance(50) {
			return " @skip(if:$" + name + ")"
		}
		return " @include(if:$" + name + ")"
	}
	return []string{" @skip(if:false)", " @include(if:true)", " @skip(if:true)", " @include(if:false)"}[g.r.Intn(4)]
}

// literal renders a literal of an input type; asVar returns a JSON value for the same type.
func (g *docGen) inputValue(t graphql.Input, argName string, host graphql.Type) (lit string, val interface{}) {
	switch tt := t.(type) {
	case *graphql.NonNull:
		return g.inputValue(tt.OfType.(graphql.Input), argName, host)
	case *graphql.List:
		n := g.r.Intn(3)
		var lits []string
		vals := []interface{}{}
		for i := 0; i < n; i++ {
			l, v := g.inputValue(tt.OfType.(graphql.Input), argName, host)
			lits = append(lits, l)
			vals = append(vals, v)
		}
		return "[" + strings.Join(lits, ",") + "]", vals
	case *graphql.Enum:
		k := []string{"ALPHA", "BETA", "GAMMA"}[g.lr.Intn(3)]
		return k, k
	case *graphql.InputObject:
		var lits []string
		m := map[string]interface{}{}
		names := make([]string, 0)
		for n := range tt.Fields() {
			names = append(names, n)
		}
		sort.Strings(names)
		for _, n := range names {
			if g.r.Chance(45) {
				l, v := g.inputValue(tt.Fields()[n].Type, n, host)
				lits = append(lits, n+":"+l)
				m[n] = v
			}
		}
		return "{" + strings.Join(lits, ",") + "}", m
	case *graphql.Scalar:
		switch tt.Name() {
		case "Int":
			v := g.lr.Intn(4) // (as "n": list lengths 0..3)
			return fmt.Sprint(v), v
		case "Float":
			return "1.5", 1.5
		case "Boolean":
			b := g.lr.Chance(50)
			return fmt.Sprint(b), b
		case "ID":
			v := fmt.Sprintf("i%d", g.lr.Intn(3))
			return `"` + v + `"`, v
		case "Stamp":
			v := fmt.Sprintf("st%d", g.lr.Intn(3))
			return `"` + v + `"`, v
		default: // String
			if argName == "as" {
				// the runtime type of an abstract result: one of its possible types
				poss := g.w.Possible[unwrapType(host).Name()]
				if len(poss) == 0 {
					poss = []string{"A"}
				}
				v := poss[g.lr.Intn(len(poss))]
				return `"` + v + `"`, v
			}
			v := fmt.Sprintf("s%d", g.lr.Intn(3))
			return `"` + v + `"`, v
		}
	}
	return "null", nil
}

func (g *docGen) arguments(fd *graphql.FieldDefinition) string {
	if len(fd.Args) == 0 {
		return ""
	}
	args := append([]*graphql.Argument(nil), fd.Args...)
	sort.Slice(args, func(i, j int) bool { return args[i].PrivateName < args[j].PrivateName })
	var parts []string
	for _, a := range args {
		if !g.r.Chance(40) {
			continue
		}
		lit, val := g.inputValue(a.Type, a.PrivateName, fd.Type)
		if g.r.Chance(30) {
			g.nVar++
			name := fmt.Sprintf("v%d", g.nVar)
			g.decls = append(g.decls, "$"+name+":"+a.Type.String())
			g.vars[name] = val
			parts = append(parts, a.PrivateName+":$"+name)
		} else {
			parts = append(parts, a.PrivateName+":"+lit)
		}
	}
	if len(parts) == 0 {
		return ""
	}
	return "(" + strings.Join(parts, ", ") + ")"
}

// field renders one field of parent (with sub-selection) under a response key
// that is unambiguous document-wide.
func (g *docGen) field(parent *graphql.Object, name string, depth int) string {
	fd := parent.Fields()[name]
	if fd == nil {
		return ""
	}
	g.budget--
	args := g.arguments(fd)
	sig := name + args + ":" + fd.Type.String()
	key := name
	if old, ok := g.keys[key]; (ok && old != sig) || g.r.Chance(8) {
		g.nAlias++
		key = fmt.Sprintf("k%d", g.nAlias)
	}
	g.keys[key] = sig
	head := name + args
	if key != name {
		head = key + ": " + head
	}
	dir := ""
	if g.r.Chance(8) {
		dir = g.condition()
	}
	switch t := unwrapType(fd.Type).(type) {
	case *graphql.Object:
		return head + dir + " { " + g.selection(t, depth+1, fd.Type == graphql.Type(t)) + " }"
	case *graphql.Interface:
		return head + dir + " { " + g.abstractSelection(t.Name(), t, depth+1) + " }"
	case *graphql.Union:
		return head + dir + " { " + g.abstractSelection(t.Name(), nil, depth+1) + " }"
	}
	return head + dir
}

func (g *docGen) abstractSelection(name string, iface *graphql.Interface, depth int) string {
	var parts []string
	if iface != nil {
		// fields of the interface itself
		var names []string
		for n := range iface.Fields() {
			names = append(names, n)
		}
		sort.Strings(names)
		for _, n := range names {
			if g.r.Chance(35) && g.budget > 0 && (depth < 4 || n == "id" || n == "name" || n == "kind") {
				// rendered through one of the implementing objects (same definition)
				parts = append(parts, g.field(g.w.Obj[g.w.Possible[name][0]], n, depth))
			}
		}
	}
	if g.r.Chance(25) {
		parts = append(parts, "__typename")
	}
	for _, pt := range g.w.Possible[name] {
		if g.r.Chance(55) && g.budget > 0 {
			dir := ""
			if g.r.Chance(10) {
				dir = g.condition()
			}
			parts = append(parts, "... on "+pt+dir+" { "+g.selection(g.w.Obj[pt], depth+1, true)+" }")
		}
	}
	if len(parts) == 0 {
		parts = append(parts, "__typename")
	}
	return strings.Join(parts, " ")
}

func isLeafField(fd *graphql.FieldDefinition) bool {
	switch unwrapType(fd.Type).(type) {
	case *graphql.Scalar, *graphql.Enum:
		return true
	}
	return false
}

// selection renders a non-empty selection set for an object type.
func (g *docGen) selection(o *graphql.Object, depth int, bareOK bool) string {
	names := sortedFieldNames(o)
	var leaves, composite []string
	for _, n := range names {
		if isLeafField(o.Fields()[n]) {
			leaves = append(leaves, n)
		} else {
			composite = append(composite, n)
		}
	}
	want := 1 + g.r.Intn(4)
	var items []string
	for i := 0; i < want; i++ {
		var n string
		if len(composite) > 0 && depth < 4 && g.budget > 0 && g.r.Chance(45) {
			n = composite[g.r.Intn(len(composite))]
		} else if len(leaves) > 0 {
			n = leaves[g.r.Intn(len(leaves))]
		} else if len(composite) > 0 && depth < 6 {
			n = composite[g.r.Intn(len(composite))]
		} else {
			continue
		}
		items = append(items, g.field(o, n, depth))
	}
	if len(items) == 0 || g.r.Chance(6) {
		items = append(items, "__typename")
	}
	// repeat one of the fields (same head, mergeable by construction)
	if g.r.Chance(12) {
		items = append(items, items[g.r.Intn(len(items))])
	}
	// wrap a suffix of the items into an inline fragment or a named fragment
	if len(items) > 1 && g.r.Chance(30) {
		cut := 1 + g.r.Intn(len(items)-1)
		inner := strings.Join(items[cut:], " ")
		items = items[:cut]
		_ = bareOK // (bare inline fragments under wrapped types were rejected by the validator until F-C02-1 was repaired)
		switch g.r.Intn(4) {
		case 0:
			items = append(items, "... { "+inner+" }")
		case 1:
			items = append(items, "... on "+o.Name()+g.maybeCondition(15)+" { "+inner+" }")
		case 2:
			items = append(items, "..."+g.maybeCondition(100)+" { "+inner+" }")
		default:
			g.nFrag++
			fn := fmt.Sprintf("F%d", g.nFrag)
			g.frags = append(g.frags, "fragment "+fn+" on "+o.Name()+" { "+inner+" }")
			g.fragOn[o.Name()] = append(g.fragOn[o.Name()], fn)
			items = append(items, "..."+fn+g.maybeCondition(15))
			if g.r.Chance(25) {
				items = append(items, "..."+fn+g.maybeCondition(30))
			}
		}
	} else if fs := g.fragOn[o.Name()]; len(fs) > 0 && g.r.Chance(20) {
		// a fragment defined elsewhere on this type, spread again here
		// (not from inside itself: fragments are appended when complete)
		items = append(items, "..."+fs[g.r.Intn(len(fs))])
	}
	return strings.Join(items, " ")
}

func (g *docGen) maybeCondition(pct int) string {
	if g.r.Chance(pct) {
		return g.condition()
	}
	return ""
}
