package sim

import (
	"context"
	"encoding/json"
	"errors"
	"fmt"
	"strings"
	"time"

	"github.com/graphql-go/graphql"
	"github.com/graphql-go/graphql/language/parser"
	"github.com/graphql-go/graphql/language/source"
)

// C16 — cancellation and deadlines yield the full response or the context error.

type C16Scn struct {
	Query      string            `json:"query"`
	Entry      string            `json:"entry"`    // do | plan
	CtxKind    string            `json:"ctx_kind"` // cancel | deadline | expired | parent | none
	Faults     map[string]string `json:"faults,omitempty"`
	AllThunk   bool              `json:"all_thunk,omitempty"`
	Park       []string          `json:"park"`                 // site classes that park
	CancelAt   int               `json:"cancel_at"`            // -1: the tape decides; k>=0: forced when k resolver gates have parked
	CancelStep int               `json:"cancel_step"`          // -1: the tape decides; k>=0: forced once the run has taken k steps
	BothReady  bool              `json:"both_ready"`           // park the caller before its select
	CancelOn   string            `json:"cancel_on,omitempty"`  // forced when a gate of this site class has parked
	Pre        bool              `json:"pre,omitempty"`        // a cancelled request on an extension-bearing schema precedes the request
	Ext        bool              `json:"ext,omitempty"`        // the judged schema has a (well-behaved, result-less) extension registered
	ExtResult  bool              `json:"ext_result,omitempty"` // the extension contributes to Result.Extensions (part of the complete response)
	ExtEndsCtx bool              `json:"ext_ends_ctx,omitempty"` // the extension's execution finish function cancels the request context (after the result was taken)
	ExtDetach  bool              `json:"ext_detach,omitempty"` // the extension hands back contexts that are detached from the request\'s cancellation
	Sticky     int               `json:"stickiness"`
	// Second: after the judged call returned, the same client executes the same
	// prepared plan again with a context that is never cancelled (entries plan
	// and cache); the abandoned execution of the first call may still be running
	Second bool `json:"second,omitempty"`
}

// the second request's resolvers fail here and there, so that its response
// carries errors of its own
var c16SecondFaults = map[string]string{"R@x2": FErr, "R@a.name": FErr, "R@nodes.1.name": FErr, "R@b.nn.s": FErr, "R@m2": FErr, "R@x5": FPanicStr}

const c16LazyPanicQuery = `{ node(as:"A") { id ... on A { aOnly(st:"PANIC") } } nodes(n:2, as:"B") { ... on B { u(as:"A") { ... on A { name } } } } x1 }`

type c16 struct{}

func init() { Register(c16{}) }

func (c16) ID() string { return "C16" }

var c16Queries = []string{
	`{ x1 }`,
	`{ x1 x2 x3 }`,
	`{ a { name items(n:2) { n label } } x1 }`,
	`{ nodes(n:3) { id name ... on B { bOnly } ... on A { aOnly } } }`,
	`{ leafyNN { s sNN iNN liNN } x2 }`,
	`{ deep { v d { vNN l { v } } } x1 x2 }`,
	`{ b { nn { s sub { s i } } nodes(n:2) { id peer { id } } } }`,
	`{ x1 x2 x3 x4 x5 x6 x7 x8 }`,
	`mutation { m1(v:1) { id } m2(v:2) { name } s1(v:3) }`,
	`{ u { ... on A { aOnly leafy { s } } ... on B { bOnly } } c { matrix cOnly } }`,
	`query($st:Stamp, $f:Filter){ echo(st:$st, f:$f) x1 }`,
	// nothing here has an explicit resolver: the default resolver reads the root
	// value, whose properties are user functions that may block
	`{ plainRoot { name n tag } }`,
	// executed as an unvalidated prepared plan only: the literal makes user code
	// (ParseLiteral) panic while an abstract alternative is planned lazily
	c16LazyPanicQuery,
	// an abstract type with a single possible type below a polymorphic field
	`{ nodes(n:2) { id ... on A { solo { ... on B { id } } } ... on C { solo { ... on B { id } } } ... on B { u { ... on A { solo { ... on B { id } } } } } } }`,
}

// variables per query (custom scalar values are coerced by user code that is a
// scheduling point: "during variable coercion")
var c16Vars = map[string]map[string]interface{}{
	`query($st:Stamp, $f:Filter){ echo(st:$st, f:$f) x1 }`: {"st": "v1", "f": map[string]interface{}{"st": "v2", "min": 2}},
}

var c16CtxKinds = []string{"cancel", "deadline", "expired", "parent", "cause", "cancel-then-deadline"}

// number of resolver invocations per query (measured once, lazily)
var c16Counts []int

func c16ResolverCount(i int) int {
	if c16Counts == nil {
		c16Counts = make([]int, len(c16Queries))
		for j, q := range c16Queries {
			w := NewWorld("A")
			rc := &ReqCtx{Task: "solo", W: w, RootTok: Tok{T: "Query"}}
			graphql.Do(graphql.Params{Schema: w.Schema, RequestString: q, VariableValues: c16Vars[q], Context: WithReq(context.Background(), rc)})
			n := 0
			for _, v := range rc.Seen {
				n += v
			}
			c16Counts[j] = n
		}
	}
	return c16Counts[i]
}

func (c16) EnumSize(tier string) int {
	// every (query, ctx kind, resolver kind, entry, cancel point k in 0..n+1)
	n := 0
	for i := range c16Queries {
		n += (c16ResolverCount(i) + 3) * len(c16CtxKinds) * 3 * 2 * 2
	}
	return n
}

func (p c16) Gen(seed uint64, enum int, tier string) json.RawMessage {
	s := C16Scn{CancelAt: -1, CancelStep: -1, Sticky: 50}
	allPark := []string{"resolver", "thunk", "rtype", "scalar", "plan.exec.start", "plan.exec.send", "client"}
	if enum >= 0 {
		for i, q := range c16Queries {
			per := (c16ResolverCount(i) + 3) * len(c16CtxKinds) * 3 * 2 * 2
			if enum >= per {
				enum -= per
				continue
			}
			s.Query = q
			s.Entry = []string{"do", "plan"}[enum%2]
			if q == c16LazyPanicQuery {
				s.Entry = "plan"
			}
			enum /= 2
			// every placement also with the caller held before its select, so that
			// result and cancellation are both there when it looks (either branch
			// may be taken; what it returns must be one of the two legal answers)
			s.BothReady = enum%2 == 1
			enum /= 2
			rk := enum % 3
			enum /= 3
			s.CtxKind = c16CtxKinds[enum%len(c16CtxKinds)]
			enum /= len(c16CtxKinds)
			s.CancelAt = enum // 0..n+1
			if enum == c16ResolverCount(i)+2 {
				// while user code coercing a variable is blocked
				s.CancelAt = -1
				s.CancelOn = "scalar"
			}
			switch rk {
			case 1:
				s.Faults = map[string]string{"R@*": FObserveCtx}
			case 2:
				s.AllThunk = true
			}
			s.Park = allPark
			if s.BothReady {
				s.Park = append(append([]string(nil), allPark...), "plan.caller.select")
			}
			return mustJSON(s)
		}
		panic("enum index out of range")
	}
	r := NewRNG(seed)
	s.Query = c16Queries[r.Intn(len(c16Queries))]
	s.Entry = []string{"do", "plan", "cache"}[r.Intn(3)]
	s.CtxKind = append(append([]string(nil), c16CtxKinds...), "none")[r.Intn(len(c16CtxKinds)+1)]
	switch r.Intn(4) {
	case 1:
		s.Faults = map[string]string{"R@*": FObserveCtx}
	case 2:
		s.AllThunk = true
	}
	// swarm: gate density
	for _, c := range allPark {
		if r.Chance(75) {
			s.Park = append(s.Park, c)
		}
	}
	s.BothReady = r.Chance(20)
	if s.BothReady {
		s.Park = append(s.Park, "plan.caller.select")
	}
	s.Sticky = []int{0, 30, 60, 90}[r.Intn(4)]
	if s.Query == c16LazyPanicQuery {
		s.Entry = "plan"
	}
	if s.Entry != "do" && r.Chance(25) {
		s.Second = true
		if r.Chance(60) {
			s.Faults = map[string]string{"R@*": FErr}
		}
	}
	if r.Chance(6) {
		// some resolver ends the executing goroutine: the call must still return
		s.Faults = map[string]string{"R@*": FGoexit}
		s.Second = false
	}
	s.Pre = r.Chance(30)
	s.Ext = r.Chance(30)
	s.ExtDetach = s.Ext && r.Chance(40)
	s.ExtResult = s.Ext && r.Chance(60)
	s.ExtEndsCtx = s.ExtResult && r.Chance(40)
	if r.Chance(75) {
		qi := 0
		for i, q := range c16Queries {
			if q == s.Query {
				qi = i
			}
		}
		s.CancelStep = r.Intn(2*c16ResolverCount(qi) + 8)
	}
	return mustJSON(s)
}

func (c16) Shrink(scn json.RawMessage) []json.RawMessage {
	var s C16Scn
	json.Unmarshal(scn, &s)
	var out []json.RawMessage
	for _, q := range c16Queries {
		if len(q) < len(s.Query) {
			t := s
			t.Query = q
			out = append(out, mustJSON(t))
		}
	}
	if s.AllThunk {
		t := s
		t.AllThunk = false
		out = append(out, mustJSON(t))
	}
	if len(s.Faults) > 0 {
		t := s
		t.Faults = nil
		out = append(out, mustJSON(t))
	}
	return out
}

// c16Probe, when set, makes a C16 run register instrumented extensions and
// keep their log as it stood when the call returned (used by C17's
// cancellation scenarios, which judge hook balance rather than the response).
var c16Probe *c16ProbeT

type c16ProbeT struct {
	NExt        int
	HasResult   map[string]bool
	Run         *ExtRun
	LogAtReturn []string
	Returned    bool
	HasData     bool
	// LogAtEnd is the hook log after everything the run started has finished;
	// Settled says that this is so (nothing blocked or leaked, one execution only)
	LogAtEnd []string
	Settled  bool
}

func parseDoc(q string) (*graphqlDoc, error) {
	src := source.NewSource(&source.Source{Body: []byte(q), Name: "GraphQL request"})
	return parser.Parse(parser.ParseParams{Source: src})
}

func (c16) Run(t TestingT, scn json.RawMessage, tape *Tape) *Outcome {
	var sc C16Scn
	if err := json.Unmarshal(scn, &sc); err != nil {
		return &Outcome{Infra: "bad scenario: " + err.Error()}
	}
	o := &Outcome{}
	faults := sc.Faults

	// reference: the same request run alone, cold, outside the simulator
	soloW := c16RefWorld(&sc)
	soloRC := &ReqCtx{Task: "solo", W: soloW, Faults: expandStar(faults), AllThunk: sc.AllThunk, RootTok: Tok{T: "Query"}}
	vars := c16Vars[sc.Query]
	solo := ""
	if faults["R@*"] != FGoexit {
		// (with a resolver that ends its goroutine only the return of the call
		// is judged, inside the simulator where a blocked call is detected)
		solo = c16Solo(soloW, sc.Query, vars, soloRC)
	}
	solo2 := ""
	if sc.Second {
		w2 := c16RefWorld(&sc)
		solo2 = c16Solo(w2, sc.Query, vars, &ReqCtx{Task: "solo", W: w2, Faults: c16SecondFaults, RootTok: Tok{T: "Query"}})
	}

	s := NewSim(tape)
	s.Stickiness = sc.Sticky
	for _, c := range sc.Park {
		s.ParkSites[c] = true
	}
	var ctxErrText string
	cancelled := false
	resolverParks := 0
	cancelOnSeen := false
	s.OnEvent = func(ev *Event) {
		if ev.Kind == "park" && SiteClass(ev.Site) == "resolver" {
			resolverParks++
		}
		if ev.Kind == "park" && sc.CancelOn != "" && SiteClass(ev.Site) == sc.CancelOn {
			cancelOnSeen = true
		}
	}
	var fakeStart time.Time
	var returned *graphql.Result
	late := ""
	pan := Bubble(t, s, func() {
		fakeStart = time.Now()
		var w *World
		var e1 *SimExt
		if c16Probe != nil {
			// run on behalf of C17: instrumented extensions whose log is judged there
			c16Probe.Run = &ExtRun{HasResult: c16Probe.HasResult}
			var exts []graphql.Extension
			for i := 0; i < c16Probe.NExt; i++ {
				exts = append(exts, &SimExt{N: extName(i), R: c16Probe.Run, Detach: sc.ExtDetach})
			}
			w = NewWorld("A", exts...)
		} else if sc.Ext {
			e1 = &SimExt{N: "E1", R: &ExtRun{HasResult: map[string]bool{"E1": sc.ExtResult}}, Detach: sc.ExtDetach}
			w = NewWorld("A", e1)
		} else {
			w = NewWorld("A")
		}
		w.GateScalars = true
		parent, parentCancel := context.WithCancel(context.Background())
		var ctx context.Context
		var cancel context.CancelFunc
		doCancel := func() {}
		switch sc.CtxKind {
		case "cancel":
			ctx, cancel = context.WithCancel(parent)
			doCancel = cancel
		case "parent":
			ctx, cancel = context.WithCancel(parent)
			doCancel = parentCancel
		case "cancel-then-deadline":
			// cancelled explicitly, and only then does the deadline pass: the
			// context's error stays "canceled"
			var tcancel context.CancelFunc
			ctx, tcancel = context.WithTimeout(parent, 5*time.Second)
			cancel = tcancel
			doCancel = func() { tcancel(); time.Sleep(6 * time.Second) }
		case "cause":
			// cancelled with a private cause: the response still carries ctx.Err()
			cctx, ccancel := context.WithCancelCause(parent)
			ctx, cancel = cctx, func() { ccancel(nil) }
			doCancel = func() { ccancel(errors.New("private cause of the cancellation")) }
		case "deadline":
			ctx, cancel = context.WithTimeout(parent, 5*time.Second)
			doCancel = func() { time.Sleep(6 * time.Second) }
		case "expired":
			ctx, cancel = context.WithDeadline(parent, time.Now().Add(-time.Second))
			cancelled = true
		default:
			ctx, cancel = context.WithCancel(parent)
		}
		if e1 != nil && sc.ExtEndsCtx && cancel != nil {
			endCtx := cancel
			e1.OnExecFinish = func() { endCtx() }
		}
		if sc.CtxKind != "none" && sc.CtxKind != "expired" {
			a := s.AddAction("cancel", func() bool {
				if cancelled {
					return false
				}
				if sc.CancelOn != "" {
					return cancelOnSeen
				}
				if sc.CancelAt >= 0 {
					return resolverParks >= sc.CancelAt
				}
				if sc.CancelStep >= 0 {
					return s.Step >= sc.CancelStep
				}
				return true
			}, func() {
				cancelled = true
				doCancel()
			})
			a.Forced = sc.CancelAt >= 0 || sc.CancelStep >= 0 || sc.CancelOn != ""
		}
		s.Spawn("c1", func(tc *TaskCtx) {
			rc := &ReqCtx{Task: "c1", W: w, Faults: expandStar(faults), AllThunk: sc.AllThunk, Gates: true, RootTok: Tok{T: "Query"}}
			rctx := WithReq(WithTask(ctx, "c1"), rc)
			if sc.Pre {
				// an earlier request of this process: cancelled before the call,
				// on a schema whose extension contributes a result; nothing of
				// it may show up in the request judged below
				pw := NewWorld("P", &SimExt{N: "E1", R: &ExtRun{HasResult: map[string]bool{"E1": true}}})
				pctx, pcancel := context.WithCancel(context.Background())
				pcancel()
				prc := &ReqCtx{Task: "c1", W: pw, RootTok: Tok{T: "Query"}}
				graphql.Do(graphql.Params{Schema: pw.Schema, RequestString: `{ x1 }`, Context: WithReq(WithTask(pctx, "c1pre"), prc)})
				pctx2, pcancel2 := context.WithDeadline(context.Background(), time.Now().Add(-time.Second))
				graphql.Do(graphql.Params{Schema: pw.Schema, RequestString: `{ x1 }`, Context: WithReq(WithTask(pctx2, "c1pre"), prc)})
				pcancel2()
			}
			s.Gate("c1", "client:call", "")
			var res *graphql.Result
			var thePlan *graphql.Plan
			var planArgs map[string]interface{}
			rootObj := c16RootObject()
			if sc.Entry == "cache" {
				cache := graphql.NewPlanCache(graphql.PlanCacheOptions{Normalize: true})
				pr := cache.Get(&w.Schema, sc.Query, "")
				if pr.Plan == nil {
					tc.Out["r"] = "cache error"
					return
				}
				thePlan, planArgs = pr.Plan, mergeArgs(vars, pr.SynthArgs)
				res = graphql.ExecutePlan(pr.Plan, graphql.ExecuteParams{Schema: w.Schema, Root: rootObj, Args: mergeArgs(vars, pr.SynthArgs), Context: rctx})
			} else if sc.Entry == "plan" {
				doc, err := parseDoc(sc.Query)
				if err != nil {
					tc.Out["r"] = "parse error"
					return
				}
				plan, err := graphql.PlanQuery(&w.Schema, doc, "")
				if err != nil {
					tc.Out["r"] = "plan error"
					return
				}
				if sc.Query == c16LazyPanicQuery {
					w.PanicLiteral = true
				}
				thePlan, planArgs = plan, vars
				res = graphql.ExecutePlan(plan, graphql.ExecuteParams{Schema: w.Schema, Root: rootObj, Args: vars, Context: rctx})
			} else {
				res = graphql.Do(graphql.Params{Schema: w.Schema, RequestString: sc.Query, RootObject: rootObj, VariableValues: vars, Context: rctx})
			}
			if c16Probe != nil {
				c16Probe.Run.mu.Lock()
				c16Probe.LogAtReturn = append([]string(nil), c16Probe.Run.Log...)
				c16Probe.Run.mu.Unlock()
				c16Probe.Returned = true
				c16Probe.HasData = res != nil && res.Data != nil
			}
			tc.Out["r"] = MarshalResult(res)
			returned = res
			kind := "other"
			if res != nil && res.Data == nil && len(res.Errors) == 1 {
				kind = "err1:" + res.Errors[0].Message
			} else if res != nil && res.Data != nil {
				kind = "data"
			}
			s.Note("c1", "client:returned", kind)
			if sc.Second && thePlan != nil {
				// the same plan again, never cancelled, while whatever the first
				// call left behind is still running
				s.Gate("c1", "client:call2", "")
				rc2 := &ReqCtx{Task: "c1", W: w, Faults: c16SecondFaults, Gates: true, RootTok: Tok{T: "Query"}}
				res2 := graphql.ExecutePlan(thePlan, graphql.ExecuteParams{Schema: w.Schema, Root: c16RootObject(), Args: planArgs, Context: WithReq(WithTask(context.Background(), "c1"), rc2)})
				tc.Out["r2"] = MarshalResult(res2)
				s.Note("c1", "client:returned2", "")
			}
		})
		s.Run()
		if err := ctx.Err(); err != nil {
			ctxErrText = err.Error()
		}
		// the result handed to the caller, looked at again after everything the
		// request started has finished
		if returned != nil && s.finished["c1"] {
			late = MarshalResult(returned)
		}
		if c16Probe != nil && c16Probe.Run != nil {
			c16Probe.Run.mu.Lock()
			c16Probe.LogAtEnd = append([]string(nil), c16Probe.Run.Log...)
			c16Probe.Run.mu.Unlock()
			c16Probe.Settled = s.finished["c1"] && !s.Stuck && !s.CapHit && len(s.Leaked) == 0 && !sc.Second && !sc.Pre && sc.Faults["R@*"] != FGoexit
		}
		o.FakeNanos = int64(time.Since(fakeStart))
	})
	outs := s.Outs
	o.AbsorbSim(s)
	o.KeepTrace(s)
	o.NonDet = sc.BothReady
	if pan != nil {
		o.Violate("C16/panic-or-blocked", "bubble ended with: %v; leftovers=%v", pan, s.Leaked)
	}
	// classify the history
	idxCancel, idxSend, idxReturned, idxSelectPark, idxSelectRun := -1, -1, -1, -1, -1
	for i, e := range s.Trace {
		if e.Task != "env" && e.Task != "c1" && !strings.HasPrefix(e.Task, "c1/") {
			continue // the preceding request's goroutines
		}
		switch {
		case e.Kind == "act" && e.Site == "cancel":
			idxCancel = i
		case e.Site == "plan.exec.send" && (e.Kind == "note" || e.Kind == "run") && idxSend < 0 && (!sc.Second || strings.HasSuffix(e.Task, "/exec.0")):
			idxSend = i
		case e.Site == "client:returned":
			idxReturned = i
		case e.Site == "plan.caller.select" && e.Kind == "park" && idxReturned < 0:
			idxSelectPark = i
		case e.Site == "plan.caller.select" && e.Kind == "run" && idxReturned < 0:
			idxSelectRun = i
		}
	}
	if sc.CtxKind == "expired" {
		idxCancel = 0
	}
	// resolvers that observe the context and ran after the cancellation fail
	// with the context's error: the complete response is then the solo response
	// of the same request with exactly those resolvers failing that way
	// (an extension that hands back detached contexts takes the cancellation away
	// from the resolvers: they cannot observe it)
	if idxCancel >= 0 && ctxErrText != "" && !sc.ExtDetach {
		f2 := map[string]string{}
		for k, v := range faults {
			f2[k] = v
		}
		n := 0
		for i, e := range s.Trace {
			if !strings.HasPrefix(e.Task, "c1/") && e.Task != "c1" {
				continue
			}
			if sc.Second && strings.HasSuffix(e.Task, "/exec.1") {
				continue // the second request has a context of its own
			}
			if i > idxCancel && SiteClass(e.Site) == "resolver" && (e.Kind == "run" || e.Kind == "note") {
				fk := faults["R@"+e.Info]
				if fk == "" {
					fk = faults["R@*"]
				}
				if fk == FObserveCtx {
					f2["R@"+e.Info] = FErrMsg + ctxErrText
					n++
				}
			}
		}
		if n > 0 {
			w2 := c16RefWorld(&sc)
			rc2 := &ReqCtx{Task: "solo", W: w2, Faults: f2, AllThunk: sc.AllThunk, RootTok: Tok{T: "Query"}}
			solo = c16Solo(w2, sc.Query, vars, rc2)
		}
	}
	got, finished := outs["c1"]["r"], outs["c1"] != nil
	if !finished || s.Stuck || s.CapHit {
		o.Violate("C16/caller-blocked", "the call did not return: stuck=%v cap=%v unfinished=%v leaked=%v", s.Stuck, s.CapHit, s.StuckOn, s.Leaked)
		return o
	}
	if sc.Second {
		if got2 := outs["c1"]["r2"]; got2 != solo2 {
			o.Violate("C16/second-request-differs", "a later, never cancelled request on the same plan differs from its solo response (the first call returned %s)\n got: %s\nsolo: %s", got, got2, solo2)
		}
	}
	if faults["R@*"] == FGoexit {
		// a resolver ended the executing goroutine: only the return of the call
		// is judged (established above)
		o.Probe("resolver-goexit")
		o.Nontrivial = true
		return o
	}
	isCtxErr := func(r string) bool { return ctxErrText != "" && isExactlyError(r, ctxErrText, sc.Ext && sc.ExtResult) }
	o.Nontrivial = idxCancel >= 0 && idxSend != -1 || idxCancel > 0
	o.Sample = map[string]interface{}{"scenario": sc, "result": got, "cancel_idx": idxCancel, "send_idx": idxSend}
	switch {
	case idxCancel < 0:
		if got != solo {
			o.Violate("C16/no-cancel-differs", "no cancellation but response differs from solo\n got: %s\nsolo: %s", got, solo)
		}
	case sc.BothReady && idxSelectPark >= 0 && idxCancel < idxSelectRun && idxSend >= 0 && idxSend < idxSelectRun:
		// both the result and the cancellation were available when the caller
		// reached its select: either branch is legal
		o.Probe("both-ready")
		if got != solo && !isCtxErr(got) {
			o.Violate("C16/neither", "both ready: response is neither solo nor the context error\n got: %s\nsolo: %s", got, solo)
		}
	case idxSend >= 0 && idxSend < idxCancel && !(sc.BothReady && idxSelectRun > idxCancel):
		o.Probe("completed-before-cancel")
		if got != solo {
			o.Violate("C16/complete-differs", "execution finished before cancellation but response differs from solo\n got: %s\nsolo: %s", got, solo)
		}
	case sc.BothReady && idxSend >= 0 && idxSend < idxCancel:
		// result was sent first, but the caller was still parked before its
		// select when the context was cancelled: both ready
		o.Probe("both-ready")
		if got != solo && !isCtxErr(got) {
			o.Violate("C16/neither", "both ready: response is neither solo nor the context error\n got: %s\nsolo: %s", got, solo)
		}
	case idxSend >= 0 && idxReturned >= 0 && s.Trace[idxSend].Step <= s.Trace[idxReturned].Step && c16SameStep(s.Trace, idxCancel, idxReturned):
		// The context was already done when the call started and the executor
		// ran to its result send without stopping at any gate, all within one
		// scheduler step: whether the caller's select saw only ctx.Done() or
		// both channels is decided by the Go runtime (time-slice preemption
		// between the `go` statement and the select), so either response is legal.
		o.Probe("both-ready-within-one-step")
		o.NonDet = true
		if got != solo && !isCtxErr(got) {
			o.Violate("C16/neither", "both ready: response is neither solo nor the context error\n got: %s\nsolo: %s", got, solo)
		}
	default:
		o.Probe("cancel-before-completion")
		if !isCtxErr(got) {
			o.Violate("C16/not-ctx-error", "cancelled (%s) before execution finished but the response is not exactly the context error\n got: %s", ctxErrText, got)
		}
		// promptness: no resolver/thunk of the request is released between the
		// cancellation and the caller's return, once the caller is inside the call
		if idxReturned > idxCancel {
			callStarted := false
			for i := 0; i < idxCancel; i++ {
				if s.Trace[i].Kind == "run" && s.Trace[i].Site == "client:call" {
					callStarted = true
				}
			}
			if callStarted && !sc.BothReady {
				for i := idxCancel + 1; i < idxReturned; i++ {
					e := s.Trace[i]
					if strings.HasPrefix(e.Task, "c1pre") {
						continue
					}
					if e.Kind == "run" || e.Kind == "act" {
						o.Violate("C16/not-prompt", "caller did not return at the first quiescent point after cancellation: %s happened first", e.String())
						break
					}
				}
			}
		}
	}
	if late != "" && late != got {
		o.Violate("C16/result-changed-after-return", "the result the call returned was modified after the return\n returned: %s\n    later: %s", got, late)
	}
	if strings.Contains(got, "!marshal") {
		o.Violate("C16/malformed", "result not serialisable: %s", got)
	}
	_ = fmt.Sprint
	return o
}

// expandStar keeps fault maps as they are; the "R@*" key is interpreted by the
// resolver lookup helper below.
func expandStar(f map[string]string) map[string]string { return f }

// c16SameStep reports whether no scheduler decision (run / act) lies between the
// later of (cancellation, start of the call) and the caller's return.
func c16SameStep(trace []Event, idxCancel, idxReturned int) bool {
	from := idxCancel
	for i, e := range trace {
		if e.Kind == "run" && e.Site == "client:call" && i > from {
			from = i
		}
	}
	if from < 0 || idxReturned < from {
		return false
	}
	for i := from + 1; i < idxReturned; i++ {
		if e := trace[i]; (e.Kind == "run" || e.Kind == "act") && !strings.HasPrefix(e.Task, "c1pre") {
			return false
		}
	}
	return true
}

// isExactlyError reports whether a marshalled result carries no data, nothing
// but the standard keys, and exactly one error whose message is msg and which
// has no path (the shape of the rest of the error object is not judged).
// c16RefWorld builds a world for a reference run: like the judged one it has
// the result-bearing extension when the scenario says so (its contribution is
// part of the complete response).
func c16RefWorld(sc *C16Scn) *World {
	if sc.Ext && sc.ExtResult && c16Probe == nil {
		return NewWorld("A", &SimExt{N: "E1", R: &ExtRun{HasResult: map[string]bool{"E1": true}}})
	}
	return NewWorld("A")
}

func isExactlyError(result, msg string, allowExtensions ...bool) bool {
	var top map[string]json.RawMessage
	if json.Unmarshal([]byte(result), &top) != nil {
		return false
	}
	for k := range top {
		if k == "extensions" && len(allowExtensions) > 0 && allowExtensions[0] {
			continue // what the extensions contribute is collected for every returned result
		}
		if k != "data" && k != "errors" {
			return false
		}
	}
	if d, ok := top["data"]; ok && string(d) != "null" {
		return false
	}
	var errs []map[string]interface{}
	if json.Unmarshal(top["errors"], &errs) != nil || len(errs) != 1 {
		return false
	}
	if m, _ := errs[0]["message"].(string); m != msg {
		return false
	}
	if p, ok := errs[0]["path"]; ok && p != nil {
		if l, isList := p.([]interface{}); !isList || len(l) > 0 {
			return false
		}
	}
	return true
}

// c16RootObject is the root value of every C16 request: the default-resolved
// field plainRoot reads it; its properties are user functions (scheduling points).
// c16Solo is the reference: the request run alone, outside the simulator, on a
// cold schema.
func c16Solo(w *World, query string, vars map[string]interface{}, rc *ReqCtx) string {
	ctx := WithReq(context.Background(), rc)
	if query == c16LazyPanicQuery {
		doc, _ := parseDoc(query)
		pl, err := graphql.PlanQuery(&w.Schema, doc, "")
		if err != nil {
			return "plan error: " + err.Error()
		}
		w.PanicLiteral = true
		return MarshalResult(graphql.ExecutePlan(pl, graphql.ExecuteParams{Schema: w.Schema, Root: c16RootObject(), Args: vars, Context: ctx}))
	}
	return MarshalResult(graphql.Do(graphql.Params{Schema: w.Schema, RequestString: query, RootObject: c16RootObject(), VariableValues: vars, Context: ctx}))
}

func c16RootObject() map[string]interface{} {
	prop := func(v interface{}) func() interface{} {
		return func() interface{} {
			if cs := Cur(); cs != nil {
				cs.Gate("", "resolver:default-property", "")
			}
			return v
		}
	}
	return map[string]interface{}{"plainRoot": map[string]interface{}{"name": prop("root-name"), "n": prop(7), "tag": prop("root-tag")}}
}
