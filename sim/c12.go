package sim

import (
	"context"
	"encoding/json"
	"fmt"
	"github.com/graphql-go/graphql/language/printer"
	"hash/fnv"
	"strings"

	"github.com/graphql-go/graphql"
	"github.com/graphql-go/graphql/verifmo"
)

// C12 — the same request always produces the same response.
//
// Nondeterminism under control: hash-map iteration order (verifmo seam), the
// request history on the same schema, cached vs uncached path, and the order
// under which the schema itself was built ("fresh process, other map seed").

type c12Req struct {
	Name   string
	Query  string
	Vars   map[string]interface{}
	Faults map[string]string
	Kind   string // valid | invalid | failing | introspection
	// ExtPlan, when set, registers three instrumented extensions with this panic plan
	ExtPlan map[string]string
}

var c12Reqs = []c12Req{
	{"v-scalars", `{ x1 x2 x3 }`, nil, nil, "valid", nil},
	{"v-abstract", `{ nodes(n:3) { id name ... on A { aOnly items(n:2) { n kind } } ... on B { bOnly nn { s } } ... on C { cOnly } } u { ... on A { aOnly } ... on B { bOnly } } }`, nil, nil, "valid", nil},
	{"v-fragments", `{ ...F p: leafy { q: s } } fragment F on Query { leafy { s e le st } a { ...N } } fragment N on Node { id kind peer { id } }`, nil, nil, "valid", nil},
	{"v-inputobj", `{ echo(f:{min:3, tags:["a","b"], kind:BETA, st:"z"}, l:[1,2], e:GAMMA) echo2(s:"q") }`, nil, nil, "valid", nil},
	{"v-vars", `query Q($f: Filter, $n: Int = 2, $e: Kind = BETA) { echo(f:$f, e:$e) nodes(n:$n) { id } }`, map[string]interface{}{"f": map[string]interface{}{"min": 5, "tags": []interface{}{"t"}}}, nil, "valid", nil},
	{"v-mutation", `mutation { m1(v:1) { id nn { s } } s1(v:2) m2(v:3) { nodes(n:2) { id } } }`, nil, nil, "valid", nil},
	{"i-unknown-field", `{ x9 }`, nil, nil, "invalid", nil},
	{"i-unknown-subfield", `{ leafy { sn lix } }`, nil, nil, "invalid", nil},
	{"i-unknown-type", `query($v: Filtr) { x1 ... on Nod { id } }`, nil, nil, "invalid", nil},
	{"i-bad-inputobj", `{ echo(f:{min:"a", tags:3, kind:NOPE, zzz:1, st:5}) }`, nil, nil, "invalid", nil},
	{"i-iface-field", `{ node { aOnly bOnly cOnly } }`, nil, nil, "invalid", nil},
	{"i-many-rules", `query($u: Int) { x1 { a } leafy ...Nope node { id(x:1) } } fragment Unused on Leafy { s }`, nil, nil, "invalid", nil},
	{"i-bad-args", `{ echo(zz:1, s:2, i:"x") nodes(m:1) { id } }`, nil, nil, "invalid", nil},
	{"i-var-coercion", `query($f: Filter!) { echo(f:$f) }`, map[string]interface{}{"f": map[string]interface{}{"min": "x", "tags": []interface{}{1}, "zz": 1, "yy": 2}}, nil, "invalid", nil},
	{"i-syntax", `{ x1 ( }`, nil, nil, "invalid", nil},
	{"e-errors", `{ leafy { s sNN i } x1 a { items(n:2) { n label } } }`, nil, map[string]string{"R@leafy.s": FErr, "R@leafy.i": FPanicStr, "R@a.items.1.label": FErr, "R@x1": FValErr}, "failing", nil},
	{"e-deferred-errors", `{ x1 x2 x3 x4 x5 x6 }`, nil, map[string]string{"R@x1": FThunkErr, "R@x2": FThunkErr, "R@x3": FThunkPanic, "R@x4": FThunkErr, "R@x5": FThunkNil, "R@x6": FThunkErr}, "failing", nil},
	{"e-deferred-nested", `{ leafy { s i f b id } a { name aOnly } }`, nil, map[string]string{"R@leafy.s": FThunkErr, "R@leafy.i": FThunkErr, "R@leafy.f": FThunkErr, "R@leafy.b": FThunkErr, "R@a.name": FThunkErr, "R@a.aOnly": FThunkPanic, "R@a": FThunk}, "failing", nil},
	{"e-deferred-grandchildren", `{ leafy { s i } a { name aOnly } b { bOnly name } }`, nil, map[string]string{"R@leafy.s": FThunkErr, "R@leafy.i": FThunkErr, "R@a.name": FThunkErr, "R@a.aOnly": FThunkPanic, "R@b.bOnly": FThunkErr, "R@b.name": FThunkErr}, "failing", nil},
	{"v-dirvar-true", `query($s:Boolean!){ x1 @skip(if:$s) x2 ... @include(if:$s) { x3 } }`, map[string]interface{}{"s": true}, nil, "valid", nil},
	{"v-dirvar-false", `query($s:Boolean!){ x1 @skip(if:$s) x2 ... @include(if:$s) { x3 } }`, map[string]interface{}{"s": false}, nil, "valid", nil},
	// several undefined-variable / variable-position errors that sit in different
	// named fragments of one operation (reported in the order the fragments are
	// reached from the operation)
	{"i-undefined-vars-in-fragments", `query Q { ...A ...B ...C ...D } fragment A on Query { echo(i:$u1) } fragment B on Query { echo2(i:$u2) ...E } fragment C on Query { x: echo(s:$u3) } fragment D on Query { y: echo2(s:$u4) } fragment E on Query { z: echo(i:$u5) }`, nil, nil, "invalid", nil},
	{"i-var-positions-in-fragments", `query Q($s:String, $b:Boolean) { ...A ...B ...C ...D } fragment A on Query { echo(i:$s) } fragment B on Query { echo2(i:$s) x1 @skip(if:$b) } fragment C on Query { x: echo(i:$b) } fragment D on Query { y: echo2(l:$s) }`, nil, nil, "invalid", nil},
	// equal-looking and different list / input-object literals of one type in one operation
	{"v-lists-that-print-alike", `{ a: echo(f:{tags:["x y"]}) b: echo(f:{tags:["x","y"]}) c: echo2(f:{tags:["x","y"]}) d: echo(f:{tags:["x y"], min:1}) e: echo(f:{tags:["x", "y"], min:1}) }`, nil, nil, "valid", nil},
	{"i-overlap-conflicts", `{ leafy { v: s w: i k: b z: f } leafy { v: i w: s z: id } a { n: name } a { n: id } }`, nil, nil, "invalid", nil},
	{"i-overlap-nested", `{ b { nn { p: s q: i } } b { nn { p: i q: s r: f } } ...F } fragment F on Query { b { nn { q: f } } }`, nil, nil, "invalid", nil},
	{"e-mutation-deferred", `mutation { s1(v:1) s2(v:2) m1(v:3) { id name bOnly } }`, nil, map[string]string{"R@s1": FThunkErr, "R@s2": FThunkErr, "R@m1.id": FThunk, "R@m1.name": FThunkErr, "R@m1.bOnly": FThunkErr}, "failing", nil},
	{"e-abstract", `{ nodes(n:3) { id } node { id } u { ... on A { aOnly } } }`, nil, map[string]string{"RT@node": FRTNil, "IT@u": FITFalse}, "failing", nil},
	{"x-ext-resolve-finish", `{ x1 x2 }`, nil, nil, "failing", map[string]string{"E1.RE": "error", "E2.RE": "string", "E3.RE": "error"}},
	{"x-ext-exec-finish", `{ x1 }`, nil, nil, "failing", map[string]string{"E1.EE": "error", "E2.EE": "error", "E3.EE": "int", "E1.VE": "error"}},
	{"x-ext-parse-finish", `{ x1 }`, nil, nil, "failing", map[string]string{"E1.PE": "error", "E2.PE": "error", "E3.PE": "error"}},
	{"d-fieldresolver", `{ plainFR { name n echoArg(x:5, y:2) e2: echoArg } p2: plainFR { echoArg(x:5, y:2) } }`, nil, nil, "valid", nil},
	{"d-struct-a", `{ plainA { name n tag } }`, nil, nil, "valid", nil},
	{"d-struct-b", `{ plainB { name n tag } }`, nil, nil, "valid", nil},
	{"d-ptr-map", `{ plainPtr { name n tag } plainMap { name n tag } plainTagged { name n tag } }`, nil, nil, "valid", nil},
	{"sub-two-roots", `subscription { a: events { id } b: ticks { s } }`, nil, nil, "subscription", nil},
	{"sub-one-root", `subscription { events { id name } }`, nil, nil, "subscription", nil},
	{"ws-plain", `{ x9 leafy { sn } }`, nil, nil, "invalid", nil},
	{"ws-indented", "\n\n   { x9 leafy { sn } }", nil, nil, "invalid", nil},
	{"ws-exec-plain", `{ x1 leafy { s sNN } }`, nil, map[string]string{"R@x1": FErr, "R@leafy.sNN": FErr}, "failing", nil},
	{"ws-exec-indented", "\n  { x1 leafy { s sNN } }  \n", nil, map[string]string{"R@x1": FErr, "R@leafy.sNN": FErr}, "failing", nil},
	{"h-hostile-noargs", `{ x1 x2 leafy { s } }`, nil, map[string]string{"R@x1": FHostile, "R@leafy.s": FHostile}, "valid", nil},
	{"h-noargs-after", `{ x4 x5 a { name } }`, nil, nil, "valid", nil},
	{"s-enum-all", `{ __type(name:"Kind") { enumValues(includeDeprecated:true) { name isDeprecated } } }`, nil, nil, "introspection", nil},
	{"s-enum-twice", `{ a: __type(name:"Kind") { enumValues { name } } b: __type(name:"Kind") { enumValues(includeDeprecated:true) { name } } c: __type(name:"Kind") { enumValues { name } } }`, nil, nil, "introspection", nil},
	{"e-deferred-nonnull-two", `{ leafyNN { sNN s } deepNN { vNN v } x1 }`, nil, map[string]string{"R@leafyNN.sNN": FThunkErr, "R@deepNN.vNN": FThunkErr, "R@leafyNN.s": FThunk}, "failing", nil},
	{"e-deferred-nonnull-three", `{ a { nn: leafy { sNN } } b { nn { sNN iNN } } c { deep { vNN } } x2 }`, nil, map[string]string{"R@a.nn.sNN": FThunkErr, "R@b.nn.sNN": FThunkPanic, "R@b.nn.iNN": FThunkNil, "R@c.deep.vNN": FThunkErr, "R@a": FThunk, "R@c": FThunk}, "failing", nil},
	{"i-args-fragment-first", `fragment F on Query { echo(zz:1, s:2, i:"x") nodes(m:1, as:3) { id } } query { ...F echo(zz:1, s:2, i:"x") }`, nil, nil, "invalid", nil},
	{"i-args-fragment-first-2", `fragment G on A { items(zz:1, n:"x", aa:2) { n } } { a { ...G items(zz:1, n:"x", aa:2) { n } } }`, nil, nil, "invalid", nil},
	{"e-sentinel-1", `{ x1 x2 a { name } }`, nil, map[string]string{"R@x1": FSentinelErr, "R@a.name": FSentinelErr}, "failing", nil},
	{"e-sentinel-2", `{ leafy { s } x3 }`, nil, map[string]string{"R@leafy.s": FSentinelErr, "R@x3": FSentinelErr}, "failing", nil},
	{"v-typed-merge-a", `query($as:String){ node(as:$as) { peer(as:"B") { id } ... on A { peer(as:"B") { ... on B { bOnly } } } ... on C { peer(as:"B") { name } } } }`, map[string]interface{}{"as": "A"}, nil, "valid", nil},
	{"v-typed-merge-c", `query($as:String){ node(as:$as) { peer(as:"B") { id } ... on A { peer(as:"B") { ... on B { bOnly } } } ... on C { peer(as:"B") { name } } } }`, map[string]interface{}{"as": "C"}, nil, "valid", nil},
	{"v-typed-merge-b", `query($as:String){ node(as:$as) { peer(as:"B") { id } ... on A { peer(as:"B") { ... on B { bOnly } } } ... on C { peer(as:"B") { name } } } }`, map[string]interface{}{"as": "B"}, nil, "valid", nil},
	{"v-obj-merge-a", `query($as:String){ node(as:$as) { meta { s } ... on A { meta { i } } ... on C { meta { f b } } } }`, map[string]interface{}{"as": "A"}, nil, "valid", nil},
	{"v-obj-merge-b", `query($as:String){ node(as:$as) { meta { s } ... on A { meta { i } } ... on C { meta { f b } } } }`, map[string]interface{}{"as": "B"}, nil, "valid", nil},
	{"v-obj-merge-c", `query($as:String){ node(as:$as) { meta { s } ... on A { meta { i } } ... on C { meta { f b } } } }`, map[string]interface{}{"as": "C"}, nil, "valid", nil},
	{"s-defaults", `{ __type(name:"Query") { fields { name args { name defaultValue } } } f: __type(name:"Filter") { inputFields { name defaultValue } } }`, nil, nil, "introspection", nil},
	{"s-types", `{ __schema { types { name kind } } }`, nil, nil, "introspection", nil},
	{"s-iface", `{ __type(name:"Node") { fields { name args { name type { name } } } possibleTypes { name } } }`, nil, nil, "introspection", nil},
	{"s-enum", `{ __type(name:"Kind") { enumValues { name } } }`, nil, nil, "introspection", nil},
	{"s-input", `{ __type(name:"Filter") { inputFields { name defaultValue type { name kind } } } }`, nil, nil, "introspection", nil},
	{"s-object", `{ __type(name:"Query") { fields { name args { name defaultValue } } } a: __type(name:"A") { interfaces { name } fields { name } } }`, nil, nil, "introspection", nil},
	{"s-directives", `{ __schema { directives { name locations args { name } } queryType { name } mutationType { name } subscriptionType { name } } }`, nil, nil, "introspection", nil},
	{"s-union", `{ __type(name:"U") { possibleTypes { name } kind } }`, nil, nil, "introspection", nil},
	{"s-typename", `{ __typename nodes(n:3) { __typename } u { __typename } }`, nil, nil, "introspection", nil},
}

type C12Scn struct {
	Req       int    `json:"req"`
	Variant   string `json:"variant"` // exec | rebuild | history | validate
	Policy    uint32 `json:"policy"`
	Salt      uint64 `json:"salt"`
	BuildPol  uint32 `json:"build_policy"`
	BuildSalt uint64 `json:"build_salt"`
	History   []int  `json:"history,omitempty"`
	Cache     string `json:"cache,omitempty"` // "" | plain | plan
	Repeat    int    `json:"repeat,omitempty"`
	// Gen: a generated document (gendoc.go) with error-producing faults takes
	// the place of the pool request
	Gen       *GenDoc           `json:"gen,omitempty"`
	GenFaults map[string]string `json:"gen_faults,omitempty"`
}

type c12 struct{}

func init() { Register(c12{}) }

func (c12) ID() string { return "C12" }

var c12Policies = [][2]uint64{{verifmo.Sorted, 0}, {verifmo.Reverse, 0}, {verifmo.Rotate, 1}, {verifmo.Rotate, 2}, {verifmo.Rotate, 3}, {verifmo.Shuffle, 11}, {verifmo.Shuffle, 12}, {verifmo.Shuffle, 13}, {verifmo.Shuffle, 14}, {verifmo.Shuffle, 15}, {verifmo.Shuffle, 16}, {verifmo.Shuffle, 17}}

func (c12) EnumSize(tier string) int {
	// request x policy x {exec, rebuild, validate}, then every ordered pair
	// (one earlier request, then the request)
	return len(c12Reqs)*len(c12Policies)*3 + len(c12Reqs)*len(c12Reqs)
}

func (p c12) Gen(seed uint64, enum int, tier string) json.RawMessage {
	s := C12Scn{}
	if base := len(c12Reqs) * len(c12Policies) * 3; enum >= base {
		enum -= base
		s.Variant = "history"
		s.Req = enum % len(c12Reqs)
		s.History = []int{enum / len(c12Reqs)}
		s.Cache = []string{"", "plain", "plan", "norm"}[enum%4]
		return mustJSON(s)
	}
	if enum >= 0 {
		s.Variant = []string{"exec", "rebuild", "validate"}[enum%3]
		enum /= 3
		pol := c12Policies[enum%len(c12Policies)]
		enum /= len(c12Policies)
		s.Req = enum
		if s.Variant == "rebuild" {
			s.BuildPol, s.BuildSalt = uint32(pol[0]), pol[1]
			s.Policy, s.Salt = uint32(pol[0]), pol[1]
		} else {
			s.Policy, s.Salt = uint32(pol[0]), pol[1]
		}
		return mustJSON(s)
	}
	r := NewRNG(seed)
	s.Req = r.Intn(len(c12Reqs))
	s.Variant = "history"
	s.Policy = uint32(r.Intn(4))
	s.Salt = r.Uint64() % 1000
	if r.Chance(50) {
		s.BuildPol = uint32(r.Intn(4))
		s.BuildSalt = r.Uint64() % 1000
	}
	for n := r.Intn(11); n > 0; n-- {
		s.History = append(s.History, r.Intn(len(c12Reqs)))
	}
	s.Cache = []string{"", "plain", "plan", "norm"}[r.Intn(4)]
	// requests with the same text and other variables are likely neighbours in a
	// real history, and they share cached plans
	var siblings []int
	for i, q := range c12Reqs {
		if i != s.Req && q.Query == c12Reqs[s.Req].Query {
			siblings = append(siblings, i)
		}
	}
	if len(siblings) > 0 && r.Chance(70) {
		for n := 1 + r.Intn(2); n > 0; n-- {
			s.History = append(s.History, siblings[r.Intn(len(siblings))])
		}
		if s.Cache == "" {
			s.Cache = []string{"plain", "plan"}[r.Intn(2)]
		}
	}
	s.Repeat = r.Intn(3)
	if r.Chance(35) {
		// a generated document; some of its resolvers fail (errors in the
		// response, whose order is part of the response)
		gd := GenQueryDoc(r, c04GenWorld(), 6+r.Intn(30), true)
		s.Gen = &gd
		w := c04GenWorld()
		rc := &ReqCtx{Task: "dry", W: w, RootTok: Tok{T: "Query"}}
		graphql.Do(graphql.Params{Schema: w.Schema, RequestString: gd.Query, VariableValues: gd.Vars, Context: WithReq(context.Background(), rc)})
		s.GenFaults = map[string]string{}
		for _, p := range SortedKeys(rc.Seen) {
			if r.Chance(25) {
				s.GenFaults["R@"+p] = []string{FErr, FThunkErr, FThunk, FPanicStr, FNil}[r.Intn(5)]
			}
		}
	}
	return mustJSON(s)
}

func (c12) Shrink(scn json.RawMessage) []json.RawMessage {
	var s C12Scn
	json.Unmarshal(scn, &s)
	var out []json.RawMessage
	if len(s.History) > 0 {
		t := s
		t.History = nil
		out = append(out, mustJSON(t))
		for i := range s.History {
			t := s
			t.History = append(append([]int(nil), s.History[:i]...), s.History[i+1:]...)
			out = append(out, mustJSON(t))
		}
	}
	if s.Cache != "" {
		t := s
		t.Cache = ""
		out = append(out, mustJSON(t))
	}
	if s.BuildPol != 0 || s.BuildSalt != 0 {
		t := s
		t.BuildPol, t.BuildSalt = 0, 0
		out = append(out, mustJSON(t))
	}
	if s.Policy != 0 {
		t := s
		t.Policy, t.Salt = 0, 0
		out = append(out, mustJSON(t))
	}
	if s.Repeat > 0 {
		t := s
		t.Repeat = 0
		out = append(out, mustJSON(t))
	}
	return out
}

func c12Root(q string) string {
	if strings.HasPrefix(q, "mutation") {
		return "Mutation"
	}
	return "Query"
}

// c12Exec runs one request against w through the chosen path and returns JSON.
func c12World() *World {
	return NewWorld("A", &SimExt{N: "E1", R: c12ExtRun}, &SimExt{N: "E2", R: c12ExtRun}, &SimExt{N: "E3", R: c12ExtRun})
}

// c12ExtRun is shared by the three extensions of every C12 world; its plan is
// switched per request (empty plan = extensions are inert).
var c12ExtRun = &ExtRun{HasResult: map[string]bool{}}

func c12Exec(w *World, rq c12Req, cache *graphql.PlanCache, plans map[string]*graphql.Plan, how string) string {
	c12ExtRun.mu.Lock()
	c12ExtRun.Plan = rq.ExtPlan
	c12ExtRun.Log = nil
	c12ExtRun.Fired = nil
	c12ExtRun.n = 0
	c12ExtRun.mu.Unlock()
	rc := &ReqCtx{Task: "c1", W: w, Faults: rq.Faults, RootTok: Tok{T: c12Root(rq.Query)}}
	ctx := WithReq(context.Background(), rc)
	if rq.Kind == "subscription" {
		// a source that delivers one event and closes; the results are collected
		w.SubSource = func(p graphql.ResolveParams) (interface{}, error) {
			// each subscription field has its own stream
			c := make(chan interface{}, 1)
			if p.Info.FieldName == "events" {
				c <- Ev{N: 0}
			} else {
				c <- Ev{N: 100}
			}
			close(c)
			return c, nil
		}
		var all []string
		for r := range graphql.Subscribe(graphql.Params{Schema: w.Schema, RequestString: rq.Query, VariableValues: rq.Vars, Context: ctx}) {
			all = append(all, MarshalResult(r))
		}
		return "[" + strings.Join(all, ",") + "]"
	}
	if rq.ExtPlan != nil {
		// the parse and validation phases of extensions exist only on the Do
		// path; ExecutePlan legitimately skips them
		how = ""
	}
	switch how {
	case "plain", "norm":
		pr := cache.Get(&w.Schema, rq.Query, "")
		if len(pr.Errors) > 0 {
			return MarshalResult(&graphql.Result{Errors: pr.Errors})
		}
		return MarshalResult(graphql.ExecutePlan(pr.Plan, graphql.ExecuteParams{Schema: w.Schema, Args: mergeArgs(rq.Vars, pr.SynthArgs), Context: ctx}))
	case "plan":
		pl, ok := plans[rq.Query]
		if !ok {
			doc, err := parseDoc(rq.Query)
			if err == nil && graphql.ValidateDocument(&w.Schema, doc, nil).IsValid {
				if p, err := graphql.PlanQuery(&w.Schema, doc, ""); err == nil {
					pl = p
				}
			}
			plans[rq.Query] = pl // a caller holding the plan of a text reuses it whatever the variables
		}
		if pl != nil {
			return MarshalResult(graphql.ExecutePlan(pl, graphql.ExecuteParams{Schema: w.Schema, Args: rq.Vars, Context: ctx}))
		}
	}
	return MarshalResult(graphql.Do(graphql.Params{Schema: w.Schema, RequestString: rq.Query, VariableValues: rq.Vars, Context: ctx}))
}

func c12Validate(w *World, rq c12Req) string {
	doc, err := parseDoc(rq.Query)
	if err != nil {
		return "syntax: " + err.Error()
	}
	return c12ValidateDoc(w, doc)
}

func c12ValidateDoc(w *World, doc *graphqlDoc) string {
	vr := graphql.ValidateDocument(&w.Schema, doc, nil)
	b, _ := json.Marshal(vr)
	return string(b)
}

var c12Ref = map[string]string{}

// c12Prelude computes every reference response once, at the first run of the
// worker process, in an order that differs from process to process: the driver
// compares the references across processes, so anything process-wide that one
// request leaves behind for another shows as processes disagreeing.
var c12PreludeDone bool

func c12Prelude() {
	if c12PreludeDone {
		return
	}
	c12PreludeDone = true
	n := len(c12Reqs)
	for k := 0; k < n; k++ {
		i := (WorkerOrdinal*7 + k*(1+2*(WorkerOrdinal%3))) % n
		c12Reference(i, false)
	}
	for i := 0; i < n; i++ {
		c12Reference(i, false) // (strides that are not coprime with n skip some)
		c12Reference(i, true)
	}
}

func c12Reference(i int, validate bool) string {
	key := fmt.Sprintf("%d/%v", i, validate)
	if r, ok := c12Ref[key]; ok {
		return r
	}
	verifmo.Set(verifmo.Sorted, 0)
	w := c12World()
	var r string
	if validate {
		r = c12Validate(w, c12Reqs[i])
	} else {
		r = c12Exec(w, c12Reqs[i], nil, nil, "")
	}
	c12Ref[key] = r
	return r
}

// firstDiff returns a short description of where two JSON texts diverge.
func firstDiff(a, b string) string {
	i := 0
	for i < len(a) && i < len(b) && a[i] == b[i] {
		i++
	}
	lo := i - 60
	if lo < 0 {
		lo = 0
	}
	cut := func(s string) string {
		hi := i + 100
		if hi > len(s) {
			hi = len(s)
		}
		if lo > len(s) {
			return ""
		}
		return s[lo:hi]
	}
	return fmt.Sprintf("first difference at byte %d:\n   this run: ...%s\n  reference: ...%s", i, cut(a), cut(b))
}

func (c12) Run(t TestingT, scn json.RawMessage, tape *Tape) *Outcome {
	var sc C12Scn
	if err := json.Unmarshal(scn, &sc); err != nil {
		return &Outcome{Infra: "bad scenario: " + err.Error()}
	}
	o := &Outcome{}
	rq := c12Reqs[sc.Req]
	defer verifmo.Set(verifmo.Sorted, 0)
	c12Prelude()
	validate := sc.Variant == "validate"
	var ref string
	if sc.Gen != nil {
		rq = c12Req{Name: "generated", Query: sc.Gen.Query, Vars: normaliseJSONInts(sc.Gen.Vars).(map[string]interface{}), Faults: sc.GenFaults, Kind: "failing"}
		verifmo.Set(verifmo.Sorted, 0)
		ref = c12Exec(c12World(), rq, nil, nil, "")
	} else {
		ref = c12Reference(sc.Req, validate)
	}

	before := verifmo.MultiKeyCalls()
	verifmo.Set(sc.BuildPol, sc.BuildSalt)
	w := c12World()
	verifmo.Set(sc.Policy, sc.Salt)
	var got []string
	var cache *graphql.PlanCache
	plans := map[string]*graphql.Plan{}
	if sc.Cache == "plain" {
		cache = graphql.NewPlanCache(graphql.PlanCacheOptions{MaxEntries: 3})
	}
	if sc.Cache == "norm" {
		cache = graphql.NewPlanCache(graphql.PlanCacheOptions{MaxEntries: 3, Normalize: true})
	}
	for _, h := range sc.History {
		c12Exec(w, c12Reqs[h], cache, plans, sc.Cache)
	}
	if validate {
		// one parsed document validated again and again (a server that keeps
		// parsed documents), then printed: validation leaves it as it was
		if doc, err := parseDoc(rq.Query); err == nil {
			printed := fmt.Sprint(printer.Print(doc))
			for i := 0; i < 3; i++ {
				got = append(got, c12ValidateDoc(w, doc))
			}
			if after := fmt.Sprint(printer.Print(doc)); after != printed {
				o.Violate("C12/validation-modifies-document", "validating %q changed the parsed document:\n before: %s\n  after: %s", rq.Query, printed, after)
			}
		}
	}
	for i := 0; i <= sc.Repeat; i++ {
		if validate {
			got = append(got, c12Validate(w, rq))
		} else {
			got = append(got, c12Exec(w, rq, cache, plans, sc.Cache))
		}
	}
	decisions := int(verifmo.MultiKeyCalls() - before)
	h := fnv.New64a()
	fmt.Fprintf(h, "%s|%d", scn, decisions)
	o.TraceHash = fmt.Sprintf("%016x", h.Sum64())
	o.Steps = decisions
	o.Nontrivial = decisions > 0 && (sc.Policy != 0 || sc.BuildPol != 0 || len(sc.History) > 0)
	o.Fire("map-order-decisions", decisions)
	if len(sc.History) > 0 {
		o.Probe("after-history")
	}
	if sc.Cache != "" {
		o.Probe("via-" + sc.Cache)
	}
	o.Sample = map[string]interface{}{"scenario": sc, "request": rq.Query, "response": got[0]}
	// the reference itself is compared across worker processes by the driver
	// ("across fresh processes"): process-wide state leaking from earlier
	// requests shows up as workers disagreeing about it
	hr := fnv.New64a()
	fmt.Fprint(hr, ref)
	refName := rq.Name
	if validate {
		refName += "/validate"
	}
	if sc.Gen == nil {
		o.Refs = map[string]string{refName: fmt.Sprintf("%016x", hr.Sum64())}
	}
	for i, g := range got {
		if g != ref && sc.Cache == "norm" && stripLocations(g) == stripLocations(ref) {
			// the recorded finding F-C06-5 seen from this property: under the
			// normalising cache the error locations are those of the request
			// that created the shared plan, i.e. they depend on the history
			o.Violate("C12/error-locations-of-other-request", "request %q after a history through the normalising cache reports the error locations of another request's text\n  %s", rq.Query, firstDiff(g, ref))
			break
		}
		if g != ref {
			o.Violate("C12/differs@"+rq.Name, "request %q (%s, variant %s, execution %d) differs from its reference response (fresh schema, sorted order, no history)\n  %s",
				rq.Query, rq.Kind, sc.Variant, i, firstDiff(g, ref))
			break
		}
	}
	return o
}
