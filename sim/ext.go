package sim

import (
	"context"
	"errors"
	"fmt"
	"sync"

	"github.com/graphql-go/graphql"
	"github.com/graphql-go/graphql/gqlerrors"
)

// ExtRun is the state shared by the instrumented extensions of one run.
type ExtRun struct {
	mu sync.Mutex
	// Plan maps "<ext>.<hook>" (optionally "@<path>" for RS/RE) to a panic
	// value kind: error | string | int | struct | nilfinish.
	Plan  map[string]string
	Log   []string // "<ext>.<hook>[!][:info]" and resolver events mirrored in by the world
	Fired []string // tokens of the panics that fired
	// HasResult is what HasResult() returns per extension.
	HasResult map[string]bool
	n         int
}

func (r *ExtRun) logf(format string, a ...interface{}) {
	r.mu.Lock()
	r.Log = append(r.Log, fmt.Sprintf(format, a...))
	r.mu.Unlock()
}

type panicStruct struct{ S string }

// evilErr is an error whose Error method fails on the nil pointer that is
// thrown; evilStr a Stringer whose String method panics
type evilErr struct{ msg string }

func (e *evilErr) Error() string { return e.msg }

type evilStr struct{ tok string }

func (e evilStr) String() string { panic("String of " + e.tok) }

// maybePanic logs the hook and panics if the plan says so. It returns true when
// the plan asks for a nil finish function.
func (r *ExtRun) hook(ext, hook, path, info string) (nilFinish bool) {
	key := ext + "." + hook
	kind := r.Plan[key]
	if k2, ok := r.Plan[key+"@"+path]; ok && path != "" {
		kind = k2
	}
	name := key
	if path != "" {
		name += ":" + path
	}
	if info != "" {
		name += " " + info
	}
	if kind == "" {
		r.logf("%s", name)
		return false
	}
	if kind == "nilfinish" {
		r.logf("%s", name)
		r.mu.Lock()
		r.Fired = append(r.Fired, "nilfinish:"+key)
		r.mu.Unlock()
		return true
	}
	r.mu.Lock()
	r.n++
	// the token identifies the hook (and path), not the order of firing, so that
	// the same plan produces the same messages in every execution
	num := 100000 + int(hash64(key, path)%900000)
	tok := fmt.Sprintf("PANICTOKEN%d", num)
	r.Fired = append(r.Fired, tok[len("PANICTOKEN"):]+":"+kind+":"+key)
	r.mu.Unlock()
	r.logf("%s!", name)
	switch kind {
	case "error":
		panic(errors.New(tok))
	case "string":
		panic(tok)
	case "int":
		panic(num)
	case "evilerr":
		panic((*evilErr)(nil))
	case "evilstr":
		panic(evilStr{tok: tok})
	default:
		panic(panicStruct{S: tok})
	}
}

// SimExt is an instrumented graphql.Extension.
type SimExt struct {
	N string
	R *ExtRun
	// Detach makes every hook hand back a context that keeps the values but not
	// the cancellation of the one it was given (a tracing extension attaching a
	// span to a detached context)
	Detach bool
	// SpanPerField makes ResolveFieldDidStart hand back a context derived with
	// context.WithCancel that the finish function cancels (a span per field,
	// ended when the field is done)
	SpanPerField bool
	// OnExecFinish, when set, is called by the execution finish function (an
	// extension that ends the request's own context when the execution is over)
	OnExecFinish func()
}

func (e *SimExt) out(ctx context.Context) context.Context {
	if e.Detach && ctx != nil {
		return context.WithoutCancel(ctx)
	}
	return ctx
}

func (e *SimExt) Name() string { return e.N }

func (e *SimExt) Init(ctx context.Context, p *graphql.Params) context.Context {
	e.R.hook(e.N, "Init", "", "")
	return ctx
}

func errInfo(err error) string {
	if err == nil {
		return "ok"
	}
	return "err"
}

func (e *SimExt) ParseDidStart(ctx context.Context) (context.Context, graphql.ParseFinishFunc) {
	if e.R.hook(e.N, "PS", "", "") {
		return ctx, nil
	}
	return ctx, func(err error) { e.R.hook(e.N, "PE", "", errInfo(err)) }
}

func (e *SimExt) ValidationDidStart(ctx context.Context) (context.Context, graphql.ValidationFinishFunc) {
	if e.R.hook(e.N, "VS", "", "") {
		return ctx, nil
	}
	return ctx, func(errs []gqlerrors.FormattedError) {
		e.R.hook(e.N, "VE", "", fmt.Sprintf("nerr=%d", len(errs)))
	}
}

func (e *SimExt) ExecutionDidStart(ctx context.Context) (context.Context, graphql.ExecutionFinishFunc) {
	if e.R.hook(e.N, "ES", "", "") {
		return e.out(ctx), nil
	}
	return e.out(ctx), func(r *graphql.Result) {
		info := "nilresult"
		if r != nil {
			info = fmt.Sprintf("data=%v nerr=%d", r.Data != nil, len(r.Errors))
		}
		e.R.hook(e.N, "EE", "", info)
		if e.OnExecFinish != nil {
			e.OnExecFinish()
		}
	}
}

func (e *SimExt) ResolveFieldDidStart(ctx context.Context, i *graphql.ResolveInfo) (context.Context, graphql.ResolveFieldFinishFunc) {
	path := PathString(i.Path)
	if e.R.hook(e.N, "RS", path, "") {
		return e.out(ctx), nil
	}
	if e.SpanPerField && ctx != nil {
		span, end := context.WithCancel(ctx)
		return span, func(v interface{}, err error) {
			defer end()
			e.R.hook(e.N, "RE", path, fmt.Sprintf("%s %s", valKind(v), errInfo(err)))
		}
	}
	return e.out(ctx), func(v interface{}, err error) {
		e.R.hook(e.N, "RE", path, fmt.Sprintf("%s %s", valKind(v), errInfo(err)))
	}
}

func valKind(v interface{}) string {
	switch v.(type) {
	case nil:
		return "nil"
	case func() (interface{}, error):
		return "thunk"
	}
	return "val"
}

func (e *SimExt) HasResult() bool {
	e.R.hook(e.N, "HR", "", "")
	return e.R.HasResult[e.N]
}

func (e *SimExt) GetResult(ctx context.Context) interface{} {
	e.R.hook(e.N, "GR", "", "")
	return map[string]interface{}{"from": e.N}
}
