package sim

import (
	"fmt"
	"strconv"

	"github.com/graphql-go/graphql/language/ast"
)

// An intrinsic check of "data contains only selected response keys": for every
// object in a response, the set of keys must be exactly the set of response
// keys the document selects for an object of that runtime type (fragments with
// type conditions applied, @skip/@include evaluated). It needs the runtime type
// of every object position, which the instrumented resolvers record
// (ReqCtx.TypeAt), and it is deliberately independent of the library's own
// field collection and planning.

type selDoc struct {
	frags    map[string]*ast.FragmentDefinition
	vars     map[string]interface{}
	possible map[string][]string // abstract type name -> concrete type names
}

// typeMatches reports whether a fragment type condition applies to runtime type t.
func (d *selDoc) typeMatches(cond *ast.Named, t string) bool {
	if cond == nil || cond.Name == nil {
		return true
	}
	c := cond.Name.Value
	if c == t {
		return true
	}
	for _, p := range d.possible[c] {
		if p == t {
			return true
		}
	}
	return false
}

// included evaluates @skip / @include: 1 = included, 0 = excluded, -1 = unknown
// (a variable without a supplied value: defaults are not evaluated here).
func (d *selDoc) included(dirs []*ast.Directive) int {
	res := 1
	for _, dir := range dirs {
		if dir == nil || dir.Name == nil || (dir.Name.Value != "skip" && dir.Name.Value != "include") {
			continue
		}
		for _, a := range dir.Arguments {
			if a == nil || a.Name == nil || a.Name.Value != "if" {
				continue
			}
			var val, known bool
			switch v := a.Value.(type) {
			case *ast.BooleanValue:
				val, known = v.Value, true
			case *ast.Variable:
				if b, ok := d.vars[v.Name.Value].(bool); ok {
					val, known = b, true
				}
			}
			if !known {
				if res == 1 {
					res = -1
				}
				continue
			}
			if (dir.Name.Value == "skip" && val) || (dir.Name.Value == "include" && !val) {
				return 0
			}
		}
	}
	return res
}

type selKeys struct {
	order []string
	state map[string]int                 // key -> 1 required, -1 optional
	subs  map[string][]*ast.SelectionSet // key -> sub-selections of its occurrences
}

func (d *selDoc) collect(sets []*ast.SelectionSet, t string) *selKeys {
	k := &selKeys{state: map[string]int{}, subs: map[string][]*ast.SelectionSet{}}
	visited := map[string]bool{}
	var visit func(sel *ast.SelectionSet, outer int)
	visit = func(sel *ast.SelectionSet, outer int) {
		if sel == nil {
			return
		}
		for _, s := range sel.Selections {
			switch n := s.(type) {
			case *ast.Field:
				inc := d.included(n.Directives)
				if inc == 0 {
					continue
				}
				if outer == -1 {
					inc = -1
				}
				key := responseKey(n)
				if old, ok := k.state[key]; !ok {
					k.order = append(k.order, key)
					k.state[key] = inc
				} else if old == -1 && inc == 1 {
					k.state[key] = 1
				}
				k.subs[key] = append(k.subs[key], n.SelectionSet)
			case *ast.InlineFragment:
				inc := d.included(n.Directives)
				if inc == 0 || !d.typeMatches(n.TypeCondition, t) {
					continue
				}
				if outer == -1 {
					inc = -1
				}
				visit(n.SelectionSet, inc)
			case *ast.FragmentSpread:
				inc := d.included(n.Directives)
				if inc == 0 || n.Name == nil {
					continue
				}
				if visited[n.Name.Value] {
					continue
				}
				visited[n.Name.Value] = true
				f := d.frags[n.Name.Value]
				if f == nil || !d.typeMatches(f.TypeCondition, t) {
					continue
				}
				if outer == -1 {
					inc = -1
				}
				visit(f.SelectionSet, inc)
			}
		}
	}
	for _, s := range sets {
		visit(s, 1)
	}
	return k
}

// CheckSelectedKeys walks decoded response data and returns a description of
// the first object whose key set is not what the document selects, or "".
func CheckSelectedKeys(doc *ast.Document, opName string, vars map[string]interface{}, rootType string, data interface{}, typeAt map[string]string, possible map[string][]string) string {
	if doc == nil || data == nil {
		return ""
	}
	d := &selDoc{frags: map[string]*ast.FragmentDefinition{}, vars: vars, possible: possible}
	var op *ast.OperationDefinition
	for _, def := range doc.Definitions {
		switch n := def.(type) {
		case *ast.OperationDefinition:
			if opName == "" || (n.Name != nil && n.Name.Value == opName) {
				if op == nil {
					op = n
				}
			}
		case *ast.FragmentDefinition:
			if n.Name != nil {
				d.frags[n.Name.Value] = n
			}
		}
	}
	if op == nil {
		return ""
	}
	var walk func(v interface{}, sets []*ast.SelectionSet, t, path string) string
	walk = func(v interface{}, sets []*ast.SelectionSet, t, path string) string {
		switch x := v.(type) {
		case []interface{}:
			for i, e := range x {
				p := strconv.Itoa(i)
				if path != "" {
					p = path + "." + p
				}
				et := typeAt[p]
				if _, isList := e.([]interface{}); isList {
					et = t
				}
				if r := walk(e, sets, et, p); r != "" {
					return r
				}
			}
		case map[string]interface{}:
			if t == "" {
				return "" // runtime type unknown (no child was resolved): nothing to check
			}
			want := d.collect(sets, t)
			for key := range x {
				if _, ok := want.state[key]; !ok {
					return fmt.Sprintf("object at %q (runtime type %s) has key %q which the document does not select for that type", path, t, key)
				}
			}
			for _, key := range want.order {
				if _, ok := x[key]; !ok && want.state[key] == 1 {
					return fmt.Sprintf("object at %q (runtime type %s) lacks the selected key %q", path, t, key)
				}
			}
			for key, child := range x {
				p := key
				if path != "" {
					p = path + "." + key
				}
				if r := walk(child, want.subs[key], typeAt[p], p); r != "" {
					return r
				}
			}
		}
		return ""
	}
	return walk(data, []*ast.SelectionSet{op.SelectionSet}, rootType, "")
}
