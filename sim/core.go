// Package sim is the deterministic simulator for graphql-go/graphql
// (DESIGN.md §2). One run is one testing/synctest bubble: a scheduler goroutine
// waits until every other goroutine of the bubble is durably blocked, then
// performs exactly one step chosen by the choice tape — release one goroutine
// parked at a gate, or perform one environment action (cancel a context, advance
// the fake clock, ...).
package sim

import (
	"context"
	"fmt"
	"hash/fnv"
	"runtime"
	"sort"
	"strings"
	"sync/atomic"
	"testing/synctest"
)

// ---------------------------------------------------------------------------
// choice tape

// Tape is the stream of integers that decides every scheduling choice. It is
// either explicit (replay / minimisation; exhausted = 0) or drawn from a PRNG.
type Tape struct {
	Explicit []uint32
	rng      *RNG
	pos      int
	Used     []uint32
}

func NewSeedTape(seed uint64) *Tape    { return &Tape{rng: NewRNG(seed ^ 0x7a9e5eed)} }
func NewExplicitTape(v []uint32) *Tape { return &Tape{Explicit: v} }
func (t *Tape) next() uint32 {
	var v uint32
	if t.rng != nil {
		v = uint32(t.rng.Uint64() >> 16)
	} else if t.pos < len(t.Explicit) {
		v = t.Explicit[t.pos]
	}
	t.pos++
	t.Used = append(t.Used, v)
	return v
}

// RNG is splitmix64: tiny, seedable, identical everywhere.
type RNG struct{ s uint64 }

func NewRNG(seed uint64) *RNG { return &RNG{s: seed} }
func (r *RNG) Uint64() uint64 {
	r.s += 0x9e3779b97f4a7c15
	z := r.s
	z = (z ^ (z >> 30)) * 0xbf58476d1ce4e5b9
	z = (z ^ (z >> 27)) * 0x94d049bb133111eb
	return z ^ (z >> 31)
}
func (r *RNG) Intn(n int) int {
	if n <= 0 {
		return 0
	}
	return int(r.Uint64() % uint64(n))
}
func (r *RNG) Chance(pct int) bool { return r.Intn(100) < pct }
func (r *RNG) Fork() *RNG          { return NewRNG(r.Uint64()) }

// ---------------------------------------------------------------------------
// messages from tasks to the scheduler: fixed size, no pointers to task memory

const (
	kPark = 1 // the sender is parked at a gate and waits for release
	kNote = 2 // an event for the trace; the sender continues
	kDone = 3 // a spawned task has finished
)

type gmsg struct {
	gid  uint64
	kind uint8
	wake chan struct{}
	nlen uint8
	name [40]byte
	slen uint8
	site [48]byte
	ilen uint16
	info [200]byte
}

//go:norace
func fillMsg(m *gmsg, name, site, info string) {
	m.nlen = uint8(copy(m.name[:], name))
	m.slen = uint8(copy(m.site[:], site))
	m.ilen = uint16(copy(m.info[:], info))
}

//go:norace
func takeMsg(m *gmsg) (name, site, info string) {
	return string(m.name[:m.nlen]), string(m.site[:m.slen]), string(m.info[:m.ilen])
}

func goid() uint64 {
	var b [48]byte
	n := runtime.Stack(b[:], false)
	var id uint64
	for i := len("goroutine "); i < n && b[i] >= '0' && b[i] <= '9'; i++ {
		id = id*10 + uint64(b[i]-'0')
	}
	return id
}

// ---------------------------------------------------------------------------
// trace

// Event is one entry of the global, scheduler-owned trace.
type Event struct {
	Step int    `json:"step"`
	Task string `json:"task"`
	Kind string `json:"kind"` // park | note | run | act | done
	Site string `json:"site"`
	Info string `json:"info,omitempty"`
}

func (e Event) String() string {
	return fmt.Sprintf("%d %s %s %s %s", e.Step, e.Task, e.Kind, e.Site, e.Info)
}

// Action is an environment action the scheduler may perform instead of
// releasing a parked task.
type Action struct {
	Name    string
	Enabled func() bool
	Do      func()
	// Forced actions are performed as soon as they are enabled, without
	// consulting the tape (used by enumerated fault placements).
	Forced bool
	// LastResort actions are offered only when nothing else is enabled.
	LastResort bool
}

type parked struct {
	task string
	site string
	info string
	wake chan struct{}
}

// TaskCtx is handed to every spawned task.
type TaskCtx struct {
	S    *Sim
	Name string
	Ctx  context.Context // carries the task name for library goroutines
	done chan struct{}
	// Out is owned by the task until it finishes; the scheduler reads it only
	// after the final join.
	Out map[string]string
}

type taskKey struct{}

// TaskName returns the logical task name carried by ctx ("" if none).
func TaskName(ctx context.Context) string {
	if ctx == nil {
		return ""
	}
	if v, ok := ctx.Value(taskKey{}).(string); ok {
		return v
	}
	return ""
}

// WithTask returns ctx carrying a logical task name.
func WithTask(ctx context.Context, name string) context.Context {
	return context.WithValue(ctx, taskKey{}, name)
}

// Sim is one simulated run.
type Sim struct {
	Tape       *Tape
	StepCap    int
	Stickiness int             // percent: prefer continuing the task that ran last
	ParkSites  map[string]bool // site classes at which gates park (others only note)
	OnEvent    func(ev *Event) // scheduler-side observer (runs on the scheduler)
	// LowPrio lists sites whose parked tasks are released only when nothing
	// else is enabled (polling loops).
	LowPrio map[string]bool

	pub      chan gmsg
	names    map[uint64]string // goroutine id -> logical task name
	ordinal  map[string]int
	parked   map[string]*parked
	actions  []*Action
	spawned  []*TaskCtx
	live     int
	last     string
	finished map[string]bool

	Trace    []Event
	Step     int
	Stuck    bool     // nothing enabled while spawned tasks were unfinished
	StuckOn  []string // names of unfinished spawned tasks when Stuck
	CapHit   bool
	Leaked   []string // library functions of goroutines still blocked at the end
	Switches int      // number of steps that changed the running task
	Acts     map[string]int
	// Outs holds the Out maps of the spawned tasks that finished (filled by Run).
	Outs map[string]map[string]string
}

// current run, consulted by library hooks and instrumented callbacks.
var cur atomic.Pointer[Sim]

// Cur returns the running simulation or nil.
func Cur() *Sim { return cur.Load() }

func NewSim(t *Tape) *Sim {
	return &Sim{
		Tape: t, StepCap: 2000, Stickiness: 50,
		ParkSites: map[string]bool{}, LowPrio: map[string]bool{},
		names: map[uint64]string{}, ordinal: map[string]int{},
		parked: map[string]*parked{}, Acts: map[string]int{}, finished: map[string]bool{},
	}
}

// SiteClass maps a gate site to the class used in ParkSites.
func SiteClass(site string) string {
	if i := strings.IndexByte(site, ':'); i >= 0 {
		return site[:i]
	}
	return site
}

// AddAction registers an environment action.
func (s *Sim) AddAction(name string, enabled func() bool, do func()) *Action {
	a := &Action{Name: name, Enabled: enabled, Do: do}
	s.actions = append(s.actions, a)
	return a
}

// Spawn starts a task. It must be called from the scheduler goroutine inside the
// bubble before Run. The task parks at its "start" gate first.
func (s *Sim) Spawn(name string, fn func(tc *TaskCtx)) *TaskCtx {
	tc := &TaskCtx{S: s, Name: name, done: make(chan struct{}), Out: map[string]string{}}
	tc.Ctx = WithTask(context.Background(), name)
	s.spawned = append(s.spawned, tc)
	s.live++
	go func() {
		s.publish(kPark, name, "task.start", "", true)
		fn(tc)
		s.publish(kDone, name, "task.done", "", false)
		close(tc.done) // visible to the race detector: orders tc.Out for the final join
	}()
	return tc
}

// publish sends one message to the scheduler and, for a parking gate, waits for
// the release. All synchronisation in here is hidden from the race detector.
func (s *Sim) publish(kind uint8, nameHint, site, info string, park bool) {
	var m gmsg
	m.gid = goid()
	m.kind = kind
	fillMsg(&m, nameHint, site, info)
	hideSync()
	if park {
		m.wake = make(chan struct{})
	}
	s.pub <- m
	if park {
		<-m.wake
	}
	showSync()
}

// Gate is a scheduling point of the calling goroutine. nameHint is used to name
// a goroutine the scheduler has not seen yet (library goroutines).
func (s *Sim) Gate(nameHint, site, info string) {
	if s.ParkSites[SiteClass(site)] {
		s.publish(kPark, nameHint, site, info, true)
	} else {
		s.publish(kNote, nameHint, site, info, false)
	}
}

// Park is a gate that parks regardless of ParkSites (polling loops must yield).
func (s *Sim) Park(nameHint, site, info string) { s.publish(kPark, nameHint, site, info, true) }

// Note records an event without parking.
func (s *Sim) Note(nameHint, site, info string) { s.publish(kNote, nameHint, site, info, false) }

func roleOf(site string) string {
	switch {
	case strings.HasPrefix(site, "plan.exec"):
		return "exec"
	case strings.HasPrefix(site, "sub.fwd"):
		return "fwd"
	}
	return "lib"
}

func (s *Sim) nameFor(gid uint64, hint, site string) string {
	if n, ok := s.names[gid]; ok {
		return n
	}
	base := hint
	if base == "" {
		base = "anon"
	}
	isSpawned := false
	for _, tc := range s.spawned {
		if tc.Name == hint && site == "task.start" {
			isSpawned = true
		}
	}
	var n string
	if isSpawned {
		n = hint
	} else {
		base = base + "/" + roleOf(site)
		n = fmt.Sprintf("%s.%d", base, s.ordinal[base])
		s.ordinal[base]++
	}
	s.names[gid] = n
	return n
}

func (s *Sim) emit(ev Event) {
	s.Trace = append(s.Trace, ev)
	if s.OnEvent != nil {
		s.OnEvent(&s.Trace[len(s.Trace)-1])
	}
}

func (s *Sim) drain() {
	// Everything published since the last decision belongs to one step. Which
	// of several goroutines woken in that step ran first is up to the Go
	// runtime (time-slice preemption can reorder them), so the step's messages
	// are put into a canonical order: by goroutine, each goroutine's own
	// messages in program order.
	var batch []gmsg
	for {
		var m gmsg
		hideSync()
		select {
		case m = <-s.pub:
		default:
			showSync()
			goto sorted
		}
		showSync()
		batch = append(batch, m)
	}
sorted:
	if len(batch) == 0 {
		return
	}
	type item struct {
		m                gmsg
		name, site, info string
	}
	items := make([]item, len(batch))
	// goroutines the scheduler already knows keep their names; new ones are
	// named in the order of their (hint, site), not of arrival
	var fresh []int
	for i := range batch {
		hint, site, info := takeMsg(&batch[i])
		items[i] = item{m: batch[i], site: site, info: info}
		if n, ok := s.names[batch[i].gid]; ok {
			items[i].name = n
		} else {
			items[i].name = "\x00" + hint
			fresh = append(fresh, i)
		}
	}
	if len(fresh) > 0 {
		seen := map[uint64]bool{}
		var order []int
		for _, i := range fresh {
			if !seen[items[i].m.gid] {
				seen[items[i].m.gid] = true
				order = append(order, i)
			}
		}
		sort.SliceStable(order, func(a, b int) bool {
			ia, ib := items[order[a]], items[order[b]]
			if ia.name != ib.name {
				return ia.name < ib.name
			}
			return ia.site < ib.site
		})
		for _, i := range order {
			hint := items[i].name[1:]
			s.nameFor(items[i].m.gid, hint, items[i].site)
		}
		for _, i := range fresh {
			items[i].name = s.names[items[i].m.gid]
		}
	}
	sort.SliceStable(items, func(a, b int) bool { return items[a].name < items[b].name })
	for _, it := range items {
		name, site, info := it.name, it.site, it.info
		switch it.m.kind {
		case kPark:
			s.parked[name] = &parked{task: name, site: site, info: info, wake: it.m.wake}
			s.emit(Event{Step: s.Step, Task: name, Kind: "park", Site: site, Info: info})
		case kNote:
			s.emit(Event{Step: s.Step, Task: name, Kind: "note", Site: site, Info: info})
		case kDone:
			s.live--
			s.finished[name] = true
			delete(s.names, it.m.gid)
			s.emit(Event{Step: s.Step, Task: name, Kind: "done", Site: site})
		}
	}
}

func (s *Sim) wait() {
	hideSync()
	synctest.Wait()
	showSync()
	s.drain()
}

type choice struct {
	name string
	p    *parked
	a    *Action
}

func (s *Sim) enabled() []choice {
	var cs []choice
	names := make([]string, 0, len(s.parked))
	for n := range s.parked {
		names = append(names, n)
	}
	sort.Strings(names)
	// the task that ran last comes first: raw tape value 0 = "no context switch"
	for _, n := range names {
		if n == s.last && !s.LowPrio[s.parked[n].site] {
			cs = append(cs, choice{name: n, p: s.parked[n]})
		}
	}
	for _, n := range names {
		if n != s.last && !s.LowPrio[s.parked[n].site] {
			cs = append(cs, choice{name: n, p: s.parked[n]})
		}
	}
	for _, a := range s.actions {
		if !a.LastResort && (a.Enabled == nil || a.Enabled()) {
			cs = append(cs, choice{name: "env:" + a.Name, a: a})
		}
	}
	if len(cs) == 0 {
		for _, n := range names {
			if s.LowPrio[s.parked[n].site] {
				cs = append(cs, choice{name: n, p: s.parked[n]})
			}
		}
	}
	if len(cs) == 0 {
		for _, a := range s.actions {
			if a.LastResort && (a.Enabled == nil || a.Enabled()) {
				cs = append(cs, choice{name: "env:" + a.Name, a: a})
			}
		}
	}
	return cs
}

// Run drives the run until every spawned task has finished and nothing is
// parked, or nothing is enabled, or the step cap is reached; then drains.
func (s *Sim) Run() {
	s.wait()
	for {
		if s.live == 0 && len(s.parked) == 0 {
			break
		}
		cs := s.enabled()
		if len(cs) == 0 {
			if s.live > 0 {
				s.Stuck = true
				for _, tc := range s.spawned {
					if !s.finished[tc.Name] {
						s.StuckOn = append(s.StuckOn, tc.Name)
					}
				}
			}
			break
		}
		if s.Step >= s.StepCap {
			s.CapHit = true
			break
		}
		idx := 0
		forced := -1
		for i, c := range cs {
			if c.a != nil && c.a.Forced {
				forced = i
				break
			}
		}
		if forced >= 0 {
			idx = forced
		} else if len(cs) > 1 {
			raw := s.Tape.next()
			if int(raw%100) >= s.Stickiness || cs[0].name != s.last {
				idx = int((raw / 100) % uint32(len(cs)))
			}
		}
		s.step(cs[idx])
	}
	s.drainPhase()
}

func (s *Sim) step(c choice) {
	s.Step++
	if c.p != nil {
		if s.last != "" && s.last != c.name {
			s.Switches++
		}
		s.last = c.name
		delete(s.parked, c.name)
		s.emit(Event{Step: s.Step, Task: c.name, Kind: "run", Site: c.p.site, Info: c.p.info})
		hideSync()
		close(c.p.wake)
		showSync()
	} else {
		s.Acts[c.a.Name]++
		s.emit(Event{Step: s.Step, Task: "env", Kind: "act", Site: c.a.Name})
		c.a.Do()
	}
	s.wait()
}

// drainPhase releases every still-parked task in canonical order (no environment
// actions) so that whatever is blocked afterwards is blocked for good.
func (s *Sim) drainPhase() {
	for i := 0; i < 10000 && len(s.parked) > 0; i++ {
		names := make([]string, 0, len(s.parked))
		for n := range s.parked {
			names = append(names, n)
		}
		sort.Strings(names)
		p := s.parked[names[0]]
		s.step(choice{name: names[0], p: p})
	}
	s.Leaked = bubbleLeftovers()
	s.Outs = s.joinOutputs()
}

// JoinOutputs returns the Out maps of the spawned tasks that finished. It
// performs the one visible synchronisation between tasks and scheduler, so it
// must be called after Run, when no library code will run in this bubble again.
func (s *Sim) joinOutputs() map[string]map[string]string {
	out := map[string]map[string]string{}
	for _, tc := range s.spawned {
		if s.finished[tc.Name] {
			<-tc.done
			out[tc.Name] = tc.Out
		}
	}
	return out
}

// stackBuf is reused by every run's goroutine dump (one run at a time per process).
var stackBuf = make([]byte, 4<<20)

// bubbleLeftovers lists, by their innermost library (or harness) function, the
// goroutines of the current bubble other than the caller that still exist.
func bubbleLeftovers() []string {
	hideSync()
	synctest.Wait()
	showSync()
	buf := stackBuf
	n := runtime.Stack(buf, true)
	me := goid()
	bubbleOf := func(header string) string {
		i := strings.Index(header, "synctest bubble ")
		if i < 0 {
			return ""
		}
		rest := header[i+len("synctest bubble "):]
		j := 0
		for j < len(rest) && rest[j] >= '0' && rest[j] <= '9' {
			j++
		}
		return rest[:j]
	}
	gs := strings.Split(string(buf[:n]), "\n\n")
	// goroutines of earlier runs that leaked stay around in their own (dead)
	// bubbles: only the current bubble counts
	myBubble := ""
	for _, g := range gs {
		var id uint64
		header, _, _ := strings.Cut(g, "\n")
		fmt.Sscanf(header, "goroutine %d ", &id)
		if id == me {
			myBubble = bubbleOf(header)
		}
	}
	var out []string
	for _, g := range gs {
		lines := strings.Split(g, "\n")
		if len(lines) == 0 || myBubble == "" || bubbleOf(lines[0]) != myBubble {
			continue
		}
		var id uint64
		fmt.Sscanf(lines[0], "goroutine %d ", &id)
		if id == me || strings.Contains(g, "testingSynctestTest") {
			continue
		}
		fn := ""
		for _, l := range lines[1:] {
			if strings.HasPrefix(l, "\t") || strings.HasPrefix(l, "created by") {
				continue
			}
			if strings.HasPrefix(l, "github.com/graphql-go/graphql") || strings.HasPrefix(l, "verif/sim") {
				fn = l
				if i := strings.LastIndexByte(fn, '('); i > 0 {
					fn = fn[:i]
				}
				break
			}
		}
		if fn == "" && len(lines) > 1 {
			fn = lines[1]
		}
		out = append(out, fn)
	}
	sort.Strings(out)
	return out
}

// TraceHash is a stable hash of the schedule-relevant part of the trace.
func (s *Sim) TraceHash() string {
	h := fnv.New64a()
	for _, e := range s.Trace {
		fmt.Fprintf(h, "%d|%s|%s|%s|%s\n", e.Step, e.Task, e.Kind, e.Site, e.Info)
	}
	return fmt.Sprintf("%016x", h.Sum64())
}

// Bubble runs body inside a fresh synctest bubble with a new Sim installed as
// the current run, and returns the panic value of an end-of-bubble deadlock (or
// any other panic that escaped the scheduler goroutine), if any.
func Bubble(t TestingT, s *Sim, body func()) (panicked interface{}) {
	// The bubble gets a sub-test of its own: when the race detector reported
	// during the bubble, synctest.Test calls FailNow on the T it was given,
	// which must not end the worker's loop over seeds.
	// Whatever the library keeps in a sync.Pool was created outside this bubble
	// (reference runs, table building, an earlier run's bubble) and cannot be
	// used inside it: two collections empty every pool (primary and victim).
	runtime.GC()
	runtime.GC()
	t.Run("b", func(st TestingT) {
		defer func() {
			cur.Store(nil)
			if r := recover(); r != nil {
				panicked = r
			}
		}()
		runBubble(st, func() {
			s.pub = make(chan gmsg, 1024)
			cur.Store(s)
			body()
			cur.Store(nil)
		})
	})
	// ... and what this bubble left in a pool cannot be used outside it
	runtime.GC()
	runtime.GC()
	return panicked
}
