package sim

import (
	"context"
	"os"

	"github.com/graphql-go/graphql/language/ast"
)

type graphqlDoc = ast.Document

// libHook is installed as the library's yield hook (build tag verif).
func libHook(ctx context.Context, site string) {
	s := Cur()
	if s == nil {
		return
	}
	s.Gate(TaskName(ctx), site, "")
}

var raceLogSize int64

// raceLogGrew reports whether the race detector wrote a report since the last call.
func raceLogGrew() bool {
	p := os.Getenv("VERIF_RACE_LOG")
	if p == "" {
		return false
	}
	fi, err := os.Stat(p + "." + itoa(os.Getpid()))
	if err != nil {
		return false
	}
	if fi.Size() > raceLogSize {
		raceLogSize = fi.Size()
		return true
	}
	return false
}

func itoa(n int) string {
	if n == 0 {
		return "0"
	}
	var b []byte
	for n > 0 {
		b = append([]byte{byte('0' + n%10)}, b...)
		n /= 10
	}
	return string(b)
}
