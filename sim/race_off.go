//go:build !race

package sim

const RaceBuild = false

func hideSync() {}
func showSync() {}
