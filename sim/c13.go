package sim

import (
	"context"
	"encoding/json"
	"fmt"
	"hash/fnv"
	"sort"
	"strings"
	"time"

	"github.com/graphql-go/graphql"
	"github.com/graphql-go/graphql/verifmo"
)

// C13 — top-level mutation fields execute serially in document order.

type C13Scn struct {
	Query  string                 `json:"query"`
	Keys   []string               `json:"keys"`         // top-level response keys in document order (known by construction)
	Op     string                 `json:"op,omitempty"` // operation name to select (multi-operation documents)
	Vars   map[string]interface{} `json:"vars,omitempty"`
	Cancel bool                   `json:"cancel,omitempty"` // some resolver cancels the request context`
	// Alt is the same mutation with its top-level selections in reverse order; the
	// cache entries serve it first (and, with a one-entry cache, evict with it)
	Alt      string            `json:"alt,omitempty"`
	Faults   map[string]string `json:"faults,omitempty"`
	AllThunk bool              `json:"all_thunk,omitempty"`
	Entry    string            `json:"entry"`
	Order    uint32            `json:"order"`
	Salt     uint64            `json:"salt"`
}

type c13 struct{}

func init() { Register(c13{}) }

func (c13) ID() string               { return "C13" }
func (c13) EnumSize(tier string) int { return 0 }

var c13Subs = map[string][]string{
	"B": {
		`id`, `name`, `kind`, `bOnly`, `nn { s i }`, `nn { sub { s } sNN }`,
		`nodes(n:2) { id name }`, `nodes(n:2) { id ... on A { aOnly items(n:1) { n } } ... on B { bOnly } }`,
		`peer { id name }`, `u { ... on A { aOnly } ... on B { bOnly nn { s } } }`,
	},
	"Deep": {`v`, `d { v }`, `d { l { v } }`, `l { v d { v } }`, `dNN { v }`, `lNN { v }`},
	"Node": {`id`, `name`, `peer { id }`, `... on B { bOnly nn { s } }`, `... on A { aOnly }`, `... on C { cOnly }`},
}

// genMutation builds a mutation document whose top-level response-key order
// is known by construction.
func genMutation(r *RNG) (string, []string) {
	q, keys, _ := genMutationAlt(r)
	return q, keys
}

// genMutationAlt also returns the document with its top-level selections reversed.
func genMutationAlt(r *RNG) (string, []string, string) {
	n := 2 + r.Intn(5)
	type top struct{ key, field, sel, place string }
	var tops []top
	for i := 0; i < n; i++ {
		key := fmt.Sprintf("k%d", i+1)
		var field, typ, chain string
		switch r.Intn(10) {
		case 0, 1:
			field, typ = fmt.Sprintf("s%d(v:%d)", 1+r.Intn(2), i), ""
		case 2:
			field, typ = "deep", "Deep"
			if r.Chance(40) {
				// a long chain of nested objects (recursive type) with a leaf at the bottom
				depth := []int{6, 20, 33, 34, 40, 70}[r.Intn(6)]
				chain = " " + strings.Repeat("{ d ", depth) + "{ v vNN }" + strings.Repeat(" }", depth)
				typ = ""
			}
		case 3:
			field, typ = `node(as:"B")`, "Node"
		default:
			field, typ = fmt.Sprintf("m%d(v:%d)", 1+r.Intn(6), i), "B"
		}
		sel := chain
		if typ != "" {
			subs := c13Subs[typ]
			var parts []string
			for j := 0; j < 1+r.Intn(3); j++ {
				parts = append(parts, subs[r.Intn(len(subs))])
			}
			sel = " { " + strings.Join(parts, " ") + " }"
		}
		tops = append(tops, top{key, field, sel, []string{"plain", "plain", "inline", "spread", "dup", "bare", "bare-nested"}[r.Intn(7)]})
	}
	var body, frags []string
	var keys []string
	var later []string
	for i, t := range tops {
		f := t.key + ": " + t.field + t.sel
		keys = append(keys, t.key)
		switch t.place {
		case "inline":
			body = append(body, "... on Mutation { "+f+" }")
		case "bare":
			body = append(body, "... { "+f+" }")
		case "bare-nested":
			body = append(body, "... { ... @include(if:true) { ... { "+f+" } } }")
		case "spread":
			body = append(body, fmt.Sprintf("...F%d", i))
			frags = append(frags, fmt.Sprintf("fragment F%d on Mutation { %s }", i, f))
		case "dup":
			// the same response key again, later in the document: merged into
			// the first occurrence, so it does not change the order - also when
			// one of the occurrences carries a variable-driven directive that
			// includes it
			f1, f2 := f, f
			switch r.Intn(4) {
			case 1:
				f1 = t.key + ": " + t.field + " @include(if:$yes)" + t.sel
			case 2:
				f2 = t.key + ": " + t.field + " @skip(if:$no)" + t.sel
			case 3:
				f2 = "... @include(if:$yes) { " + f + " }"
			}
			body = append(body, f1)
			later = append(later, f2)
		default:
			body = append(body, f)
		}
	}
	body = append(body, later...)
	rev := make([]string, len(body))
	for i := range body {
		rev[len(body)-1-i] = body[i]
	}
	all := strings.Join(body, " ")
	allRev := strings.Join(rev, " ")
	var fragsRev []string
	// sometimes the operation's own selection set consists of one fragment that
	// contributes every top-level field
	switch r.Intn(12) {
	case 0:
		all, allRev = "... { "+all+" }", "... { "+allRev+" }"
	case 1:
		all, allRev = "... on Mutation { "+all+" }", "... on Mutation { "+allRev+" }"
	case 2:
		all, allRev = "... @include(if:$yes) { "+all+" }", "... @include(if:$yes) { "+allRev+" }"
	case 3:
		fragsRev = append(append([]string(nil), frags...), "fragment Whole on Mutation { "+allRev+" }")
		frags = append(frags, "fragment Whole on Mutation { "+all+" }")
		all, allRev = "...Whole", "...Whole"
	}
	if fragsRev == nil {
		fragsRev = frags
	}
	var decl []string
	if strings.Contains(all+strings.Join(frags, " "), "$yes") {
		decl = append(decl, "$yes:Boolean=true")
	}
	if strings.Contains(all+strings.Join(frags, " "), "$no") {
		decl = append(decl, "$no:Boolean=false")
	}
	head := "mutation"
	if len(decl) > 0 {
		head += "(" + strings.Join(decl, ",") + ")"
	}
	return head + " { " + all + " } " + strings.Join(frags, " "), keys, head + " { " + allRev + " } " + strings.Join(fragsRev, " ")
}

var c13Faults = []string{FThunk, FThunk, FThunk, FThunk2, FThunk2, FThunkErr, FThunkNil, FThunkPanic, FErr, FNil, FElemThunk, FElemThunk}

func (p c13) Gen(seed uint64, enum int, tier string) json.RawMessage {
	r := NewRNG(seed)
	s := C13Scn{}
	s.Query, s.Keys, s.Alt = genMutationAlt(r)
	if r.Chance(50) {
		// supplied explicitly (otherwise the defaults apply); only declared ones
		s.Vars = map[string]interface{}{}
		if strings.Contains(s.Query, "$yes:") {
			s.Vars["yes"] = true
		}
		if strings.Contains(s.Query, "$no:") {
			s.Vars["no"] = false
		}
	}
	if r.Chance(35) {
		// a multi-operation document: the mutation is selected by name, other
		// operations (of other kinds) stand before and/or after it
		s.Op = "M"
		if strings.HasPrefix(s.Query, "mutation(") {
			s.Query = strings.Replace(s.Query, "mutation(", "mutation M(", 1)
		} else {
			s.Query = strings.Replace(s.Query, "mutation {", "mutation M {", 1)
		}
		s.Alt = "" // the twin is only used with single-operation documents
		others := []string{"query Q1 { x1 }", "subscription S1 { events { id } }", "query Q2 { a { id } }", "mutation M2 { s1(v:9) }"}
		i, j := r.Intn(len(others)), r.Intn(len(others))
		if r.Chance(50) {
			s.Query = others[i] + " " + s.Query
		} else {
			i = -1
		}
		if r.Chance(75) && j != i {
			s.Query = s.Query + " " + others[j]
		}
	}
	s.Entry = []string{"do", "plan", "cache", "cache-norm"}[r.Intn(4)]
	s.Order = uint32(r.Intn(4))
	s.Salt = r.Uint64() % 1000
	// the fault-free run tells which response paths exist
	w := NewWorld("A")
	rc := &ReqCtx{Task: "dry", W: w, RootTok: Tok{T: "Mutation"}}
	graphql.Do(graphql.Params{Schema: w.Schema, RequestString: s.Query, OperationName: s.Op, VariableValues: s.Vars, Context: WithReq(context.Background(), rc)})
	paths := SortedKeys(rc.Seen)
	switch r.Intn(5) {
	case 0:
		s.AllThunk = true
	case 1: // top level only
		s.Faults = map[string]string{}
		for _, p := range paths {
			if !strings.Contains(p, ".") && r.Chance(70) {
				s.Faults["R@"+p] = FThunk
				if r.Chance(30) {
					// the top-level field's own value is a deferred value that yields another one
					s.Faults["R@"+p] = FThunk2
				}
			}
		}
	default:
		s.Faults = map[string]string{}
		if r.Chance(15) && len(paths) > 0 {
			// the request context is cancelled from inside a resolver: the caller
			// returns, the execution goroutine carries on and must still be serial
			s.Cancel = true
			s.Faults["R@"+paths[r.Intn(len(paths))]] = FCancelCtx
		}
		pct := []int{15, 35, 60}[r.Intn(3)]
		for _, p := range paths {
			if r.Chance(pct) {
				s.Faults["R@"+p] = c13Faults[r.Intn(len(c13Faults))]
			}
		}
	}
	return mustJSON(s)
}

func (c13) Shrink(scn json.RawMessage) []json.RawMessage {
	var s C13Scn
	json.Unmarshal(scn, &s)
	var out []json.RawMessage
	if s.AllThunk {
		t := s
		t.AllThunk = false
		out = append(out, mustJSON(t))
	}
	for _, k := range SortedKeys(s.Faults) {
		t := s
		t.Faults = map[string]string{}
		for k2, v := range s.Faults {
			if k2 != k {
				t.Faults[k2] = v
			}
		}
		out = append(out, mustJSON(t))
	}
	if s.Order != 0 {
		t := s
		t.Order = 0
		out = append(out, mustJSON(t))
	}
	return out
}

func (c13) Run(t TestingT, scn json.RawMessage, tape *Tape) *Outcome {
	var sc C13Scn
	if err := json.Unmarshal(scn, &sc); err != nil {
		return &Outcome{Infra: "bad scenario: " + err.Error()}
	}
	o := &Outcome{}
	verifmo.Set(verifmo.Sorted, 0)
	w := NewWorld("A")
	verifmo.Set(sc.Order, sc.Salt)
	defer verifmo.Set(verifmo.Sorted, 0)
	rc := &ReqCtx{Task: "c1", W: w, Faults: sc.Faults, AllThunk: sc.AllThunk, RootTok: Tok{T: "Mutation"}}
	base, cancel := context.WithCancel(context.Background())
	defer cancel()
	rc.Cancel = cancel
	ctx := WithReq(base, rc)
	var res *graphql.Result
	if sc.Entry == "cache" || sc.Entry == "cache-norm" {
		opts := graphql.PlanCacheOptions{Normalize: sc.Entry == "cache-norm"}
		if sc.Alt != "" && sc.Salt%2 == 0 {
			opts.MaxEntries = 1
		}
		cache := graphql.NewPlanCache(opts)
		if sc.Alt != "" && opts.MaxEntries == 1 {
			// one entry: the document is cached, evicted by its reversed twin, and
			// requested again
			cache.Get(&w.Schema, sc.Query, sc.Op)
			cache.Get(&w.Schema, sc.Alt, sc.Op)
		} else if sc.Alt != "" {
			// the reversed twin is cached first
			cache.Get(&w.Schema, sc.Alt, sc.Op)
			cache.Get(&w.Schema, sc.Query, sc.Op)
		} else {
			cache.Get(&w.Schema, sc.Query, sc.Op)
		}
		// (a hit unless just evicted): the plan that executes comes from the cache
		pr := cache.Get(&w.Schema, sc.Query, sc.Op)
		if pr.Plan == nil {
			return &Outcome{Infra: "generated mutation is rejected by the plan cache: " + MarshalResult(&graphql.Result{Errors: pr.Errors}) + " query: " + sc.Query}
		}
		res = graphql.ExecutePlan(pr.Plan, graphql.ExecuteParams{Schema: w.Schema, Args: mergeArgs(sc.Vars, pr.SynthArgs), Context: ctx})
	} else if sc.Entry == "plan" {
		doc, err := parseDoc(sc.Query)
		if err != nil {
			return &Outcome{Infra: "generated mutation does not parse: " + err.Error()}
		}
		plan, err := graphql.PlanQuery(&w.Schema, doc, sc.Op)
		if err != nil {
			return &Outcome{Infra: "generated mutation does not plan: " + err.Error()}
		}
		res = graphql.ExecutePlan(plan, graphql.ExecuteParams{Schema: w.Schema, Args: sc.Vars, Context: ctx})
	} else {
		res = graphql.Do(graphql.Params{Schema: w.Schema, RequestString: sc.Query, OperationName: sc.Op, VariableValues: sc.Vars, Context: ctx})
	}
	if sc.Cancel {
		// the caller may have returned with the context error while the
		// execution goroutine is still running: wait until its log is stable
		last, stable := -1, 0
		for i := 0; i < 400 && stable < 15; i++ {
			time.Sleep(2 * time.Millisecond)
			l, _, _, _ := rc.Snapshot()
			if len(l) == last {
				stable++
			} else {
				last, stable = len(l), 0
			}
		}
	}
	log, fired, _, _ := rc.Snapshot()
	for k, v := range fired {
		o.Fire(k, v)
	}
	h := fnv.New64a()
	fmt.Fprintf(h, "%s|%s", scn, strings.Join(log, "\n"))
	o.TraceHash = fmt.Sprintf("%016x", h.Sum64())
	o.Steps = len(log)
	o.Trace = log
	if len(log) == 0 {
		// the generated documents are valid and always execute (the generator's
		// own dry run did): serving another document's plan is one way to get here
		o.Violate("C13/did-not-execute", "the mutation executed nothing (entry %s): %s\n query: %s", sc.Entry, MarshalResult(res), sc.Query)
		return o
	}
	rank := map[string]int{}
	for i, k := range sc.Keys {
		rank[k] = i
	}
	nThunks := 0
	tops := map[string]bool{}
	last, lastEv := -1, ""
	for _, e := range log {
		if len(e) < 2 || (e[0] != 'R' && e[0] != 'T') || (e[1] != '+' && e[1] != '-') {
			continue
		}
		if e[0] == 'T' && e[1] == '+' {
			nThunks++
		}
		path := e[2:]
		topKey, _, _ := strings.Cut(path, ".")
		tops[topKey] = true
		rk, ok := rank[topKey]
		if !ok {
			o.Violate("C13/unknown-key", "event %s belongs to no top-level key of %v", e, sc.Keys)
			continue
		}
		if rk < last {
			o.Violate("C13/order", "%s ran after %s, which belongs to a later top-level field (document order %v)\nlog: %s", e, lastEv, sc.Keys, strings.Join(log, " "))
			break
		}
		if rk > last {
			last, lastEv = rk, e
		}
	}
	o.Nontrivial = nThunks > 0 && len(tops) > 1
	if nThunks > 0 {
		o.Probe("deferred-work")
	}
	o.Sample = map[string]interface{}{"scenario": sc, "log": log, "result": MarshalResult(res)}
	_ = sort.Strings
	return o
}
