//go:build race

package sim

import "runtime"

// RaceBuild reports whether the binary was built with the race detector.
const RaceBuild = true

// hideSync makes the race detector ignore synchronisation events (not memory
// accesses) on the calling goroutine until showSync is called. Every simulator
// hand-off runs between the two, so the detector sees only the library's own
// synchronisation (DESIGN.md §2.4).
func hideSync() { runtime.RaceDisable() }
func showSync() { runtime.RaceEnable() }
