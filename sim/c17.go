package sim

import (
	"context"
	"encoding/json"
	"fmt"
	"hash/fnv"
	"strings"

	"github.com/graphql-go/graphql"
	"github.com/graphql-go/graphql/verifmo"
)

// C17 — extension hooks are balanced, ordered and fault-isolated.

type c17Req struct {
	Name    string
	Query   string
	Vars    map[string]interface{}
	Faults  map[string]string
	Outcome string // syntax | validation | variable | field | success
	// QueryOnly builds the schema without mutation and subscription roots;
	// CountKeys demands one resolve notification per key of the response data
	QueryOnly, CountKeys bool
}

var c17Reqs = []c17Req{
	{"syntax", `{ x1 `, nil, nil, "syntax", false, false},
	{"validation", `{ nope }`, nil, nil, "validation", false, false},
	{"variable", `query($v: Int!) { echo(i: $v) }`, nil, nil, "variable", false, false},
	{"field-errors", `{ x1 leafy { s sNN } x2 }`, nil, map[string]string{"R@leafy.sNN": FErr, "R@x2": FValErr}, "field", false, false},
	{"success", `{ x1 a { name items(n:2) { n } } }`, nil, nil, "success", false, false},
	{"mutation", `mutation { s1(v:1) m1(v:2) { id nn { s } } s2(v:3) }`, nil, nil, "success", false, false},
	{"thunks", `{ x1 b { name nodes(n:2) { id } } x2 }`, nil, map[string]string{"R@b": FThunk, "R@b.nodes": FThunk, "R@x2": FThunk}, "success", false, false},
	{"data-null", `{ x1 leafyNN { sNN } }`, nil, map[string]string{"R@leafyNN.sNN": FErr}, "field", false, false},
	{"nonnull-nil", `{ x1 leafy { s sNN } b { nn { iNN } id } x2 }`, nil, map[string]string{"R@leafy.sNN": FNil, "R@b.nn.iNN": FTypedNil, "R@b.id": FNil}, "field", false, false},
	{"all-skipped", `{ x1 @skip(if:true) ... @include(if:false) { x2 } }`, nil, nil, "success", false, false},
	{"typename-only", `{ a { id } u { ... on A { aOnly } ... on B { bOnly } } }`, nil, nil, "success", false, false},
	{"typename-fields", `{ __typename a { __typename id name } u { __typename ... on A { aOnly } ... on B { bOnly } } nodes(n:2) { __typename id } }`, nil, nil, "success", false, true},
	{"thunk-then-nonnull-fail", `{ x1 leafy { s i sNN } b { name nn { s iNN } } }`, nil, map[string]string{"R@leafy.s": FThunk, "R@leafy.i": FThunk, "R@leafy.sNN": FErr, "R@b.name": FThunk, "R@b.nn.s": FThunk, "R@b.nn.iNN": FNil}, "field", false, false},
	{"mutation-on-query-only-schema", `mutation { ... on Node { id } s1(v:1) }`, nil, nil, "validation", true, false},
	{"resolver-panics", `{ x1 leafy { s sNN } b { id name } x2 }`, nil, map[string]string{"R@x1": FPanicErr, "R@leafy.s": FPanicStr, "R@b.id": FPanicInt, "R@x2": FPanicErr}, "field", false, false},
	// syntax errors in documents with Windows and old Mac line ends (the error is
	// reported with the line and column of the text that was sent)
	{"syntax-crlf", "{\r\n  x1\r\n  a {\r\n    id\r\n  }\r\n  leafy { s \r\n", nil, nil, "syntax", false, false},
	{"syntax-cr", "{\r  x1\r  a {\r    id\r  }\r  leafy { s \r", nil, nil, "syntax", false, false},
	{"syntax-crlf-mid", "query Q {\r\n  x1\r\n  a { id }\r\n}\r\n\r\nquery R {\r\n  x2 ]", nil, nil, "syntax", false, false},
	{"success-crlf", "{\r\n  x1\r\n  a {\r\n    name\r\n  }\r\n}\r\n", nil, nil, "success", false, false},
	{"subscription-on-query-only-schema", `subscription { ... on U { ... on A { id } } events { id } }`, nil, nil, "validation", true, false},
}

var c17Hooks = []string{"Init", "PS", "PE", "VS", "VE", "ES", "EE", "RS", "RE", "HR", "GR"}
var c17NilFinish = []string{"PS", "VS", "ES", "RS"}
var c17Values = []string{"error", "string", "int", "struct", "evilerr", "evilstr"}
var c17ExtConf = [][2]int{{1, 0}, {2, 0}, {2, 1}, {3, 0}, {3, 1}, {3, 2}}

type C17Scn struct {
	Req       int               `json:"req"`
	Entry     string            `json:"entry"` // do | plan | plan-addext (extensions registered after planning) | do-copy / plan-copy (see Run)
	// SpanPerField: the extensions hand a per-field context to the resolvers and cancel it when the field is done
	SpanPerField bool `json:"span_per_field,omitempty"`
	NExt      int               `json:"n_ext"`
	Plan      map[string]string `json:"plan,omitempty"`
	HasResult map[string]bool   `json:"has_result,omitempty"`
	Order     uint32            `json:"order"`
	Salt      uint64            `json:"salt"`
	// Cancel, when set, is a simulated request with cancellation (a C16
	// scenario) run with NExt instrumented extensions: the hook log is judged
	// as it stands when the call returns
	Cancel json.RawMessage `json:"cancel,omitempty"`
}

type c17 struct{}

func init() { Register(c17{}) }

func (c17) ID() string { return "C17" }

func (c17) EnumSize(tier string) int {
	// single panic placements: (hooks x values + nil-finish hooks) x requests x extension configs x entries(2), plus the panic-free runs
	return (len(c17Hooks)*len(c17Values) + len(c17NilFinish) + 1) * len(c17Reqs) * len(c17ExtConf) * 2
}

func extName(i int) string { return fmt.Sprintf("E%d", i+1) }

func (p c17) Gen(seed uint64, enum int, tier string) json.RawMessage {
	s := C17Scn{HasResult: map[string]bool{}}
	if enum >= 0 {
		s.Entry = []string{"do", "plan"}[enum%2]
		enum /= 2
		ec := c17ExtConf[enum%len(c17ExtConf)]
		enum /= len(c17ExtConf)
		s.Req = enum % len(c17Reqs)
		enum /= len(c17Reqs)
		s.NExt = ec[0]
		nh := len(c17Hooks) * len(c17Values)
		switch {
		case enum < nh:
			s.Plan = map[string]string{extName(ec[1]) + "." + c17Hooks[enum/len(c17Values)]: c17Values[enum%len(c17Values)]}
		case enum < nh+len(c17NilFinish):
			s.Plan = map[string]string{extName(ec[1]) + "." + c17NilFinish[enum-nh]: "nilfinish"}
		}
		for i := 0; i < s.NExt; i++ {
			s.HasResult[extName(i)] = true
		}
		s.Order = uint32(enum % 4)
		s.Salt = uint64(enum)
		return mustJSON(s)
	}
	r := NewRNG(seed)
	if r.Chance(12) {
		s.NExt = 1 + r.Intn(2)
		for i := 0; i < s.NExt; i++ {
			s.HasResult[extName(i)] = r.Chance(70)
		}
		s.Cancel = c16{}.Gen(r.Uint64(), -1, tier)
		return mustJSON(s)
	}
	s.Entry = []string{"do", "plan", "plan-addext", "do", "plan", "do-copy", "plan-copy"}[r.Intn(7)]
	s.SpanPerField = r.Chance(20)
	s.Req = r.Intn(len(c17Reqs))
	s.NExt = 1 + r.Intn(3)
	s.Plan = map[string]string{}
	for n := r.Intn(4); n > 0; n-- {
		ext := extName(r.Intn(s.NExt))
		if r.Chance(15) {
			s.Plan[ext+"."+c17NilFinish[r.Intn(len(c17NilFinish))]] = "nilfinish"
		} else {
			s.Plan[ext+"."+c17Hooks[r.Intn(len(c17Hooks))]] = c17Values[r.Intn(len(c17Values))]
		}
	}
	for i := 0; i < s.NExt; i++ {
		s.HasResult[extName(i)] = r.Chance(70)
	}
	s.Order = uint32(r.Intn(4))
	s.Salt = r.Uint64() % 1000
	return mustJSON(s)
}

func (c17) Shrink(scn json.RawMessage) []json.RawMessage {
	var s C17Scn
	json.Unmarshal(scn, &s)
	var out []json.RawMessage
	for k := range s.Plan {
		t := s
		t.Plan = map[string]string{}
		for k2, v := range s.Plan {
			if k2 != k {
				t.Plan[k2] = v
			}
		}
		out = append(out, mustJSON(t))
	}
	if s.NExt > 1 {
		t := s
		t.NExt--
		drop := extName(s.NExt-1) + "."
		uses := false
		for k := range s.Plan {
			if strings.HasPrefix(k, drop) {
				uses = true
			}
		}
		if !uses {
			out = append(out, mustJSON(t))
		}
	}
	if s.Order != 0 {
		t := s
		t.Order = 0
		out = append(out, mustJSON(t))
	}
	return out
}

type extEv struct {
	Ext, Hook, Path, Info string
	Failed                bool
	Pos                   int
}

func parseExtLog(log []string) (evs []extEv) {
	for i, l := range log {
		var e extEv
		e.Pos = i
		if strings.HasSuffix(l, "!") {
			e.Failed = true
			l = l[:len(l)-1]
		}
		head, info, _ := strings.Cut(l, " ")
		e.Info = info
		if strings.HasPrefix(head, "R+:") || strings.HasPrefix(head, "R-:") {
			e.Ext, e.Hook, e.Path = "", head[:2], head[3:]
		} else {
			eh, path, _ := strings.Cut(head, ":")
			e.Path = path
			e.Ext, e.Hook, _ = strings.Cut(eh, ".")
		}
		evs = append(evs, e)
	}
	return
}

// the names under which the library reports a failed hook
var c17HookFunc = map[string]string{"Init": "Init", "PS": "ParseDidStart", "PE": "ParseFinishFunc", "VS": "ValidationDidStart", "VE": "ValidationFinishFunc",
	"ES": "ExecutionDidStart", "EE": "ExecutionFinishFunc", "RS": "ResolveFieldDidStart", "RE": "ResolveFieldFinishFunc", "HR": "GetResult", "GR": "GetResult"}

var c17Rank = map[string]int{"Init": 0, "PS": 1, "PE": 2, "VS": 3, "VE": 4, "ES": 5, "RS": 6, "RE": 6, "EE": 7, "HR": 8, "GR": 9}

func (c17) Run(t TestingT, scn json.RawMessage, tape *Tape) *Outcome {
	var sc C17Scn
	if err := json.Unmarshal(scn, &sc); err != nil {
		return &Outcome{Infra: "bad scenario: " + err.Error()}
	}
	if sc.Cancel != nil {
		return c17Cancel(t, &sc, tape)
	}
	o := &Outcome{}
	req := c17Reqs[sc.Req]
	run := &ExtRun{Plan: sc.Plan, HasResult: sc.HasResult}
	var exts []graphql.Extension
	for i := 0; i < sc.NExt; i++ {
		exts = append(exts, &SimExt{N: extName(i), R: run, SpanPerField: sc.SpanPerField})
	}
	verifmo.Set(verifmo.Sorted, 0)
	var w *World
	QueryOnlyWorld = req.QueryOnly
	defer func() { QueryOnlyWorld = false }()
	if sc.Entry == "plan-addext" {
		w = NewWorld("A") // the extensions are registered after the plan was prepared
	} else {
		w = NewWorld("A", exts...)
	}
	verifmo.Set(sc.Order, sc.Salt)
	defer verifmo.Set(verifmo.Sorted, 0)
	rc := &ReqCtx{Task: "c1", W: w, Faults: req.Faults, Ext: run, RootTok: Tok{T: "Query"}}
	ctx := WithReq(context.Background(), rc)

	var res *graphql.Result
	var escaped interface{}
	entry := sc.Entry
	// do-copy / plan-copy: copies of the schema value are taken and extensions
	// of the same names (logging elsewhere) are registered on the copies only;
	// the request runs against the original, whose own extensions must see it
	// and nobody else
	other := &ExtRun{HasResult: sc.HasResult}
	if strings.HasSuffix(entry, "-copy") {
		entry = strings.TrimSuffix(entry, "-copy")
		c1, c2 := w.Schema, w.Schema
		for i := 0; i < sc.NExt; i++ {
			c1.AddExtensions(&SimExt{N: extName(i), R: other})
		}
		c2.AddExtensions(&SimExt{N: extName(0), R: other}, &SimExt{N: "E9", R: other})
	}
	func() {
		defer func() {
			if r := recover(); r != nil {
				escaped = r
			}
		}()
		if entry == "plan" || entry == "plan-addext" {
			doc, err := parseDoc(req.Query)
			var plan *graphql.Plan
			if err == nil && graphql.ValidateDocument(&w.Schema, doc, nil).IsValid {
				plan, err = graphql.PlanQuery(&w.Schema, doc, "")
			}
			if entry == "plan-addext" {
				w.Schema.AddExtensions(exts...)
			}
			if err != nil || plan == nil {
				entry = "do"
			} else {
				entry = "plan"
				res = graphql.ExecutePlan(plan, graphql.ExecuteParams{Schema: w.Schema, Args: req.Vars, Context: ctx})
				return
			}
		}
		res = graphql.Do(graphql.Params{Schema: w.Schema, RequestString: req.Query, VariableValues: req.Vars, Context: ctx})
	}()
	run.mu.Lock()
	log := append([]string(nil), run.Log...)
	fired := append([]string(nil), run.Fired...)
	run.mu.Unlock()
	h := fnv.New64a()
	fmt.Fprintf(h, "%s|%s", scn, strings.Join(log, "\n"))
	o.TraceHash = fmt.Sprintf("%016x", h.Sum64())
	o.Steps = len(log)
	o.Trace = log
	o.Nontrivial = len(fired) > 0 || sc.NExt > 1
	for _, f := range fired {
		parts := strings.SplitN(f, ":", 3)
		if len(parts) == 3 {
			_, hk, _ := strings.Cut(parts[2], ".")
			o.Fire("panic-"+parts[1]+"@"+hk, 1)
		} else {
			o.Fire("nil-finish-func", 1)
		}
	}
	o.Sample = map[string]interface{}{"scenario": sc, "request": req.Query, "entry": entry, "log": log, "result": MarshalResult(res)}

	if escaped != nil {
		o.Violate("C17/escaped-panic", "a panic escaped the entry point (%s): %v", entry, escaped)
		return o
	}
	other.mu.Lock()
	if len(other.Log) > 0 {
		o.Violate("C17/foreign-extension", "extensions registered only on copies of the schema value saw hooks of a request against the original: %v", other.Log)
	}
	other.mu.Unlock()
	if res == nil {
		o.Violate("C17/nil-result", "entry point returned nil")
		return o
	}
	evs := parseExtLog(log)
	// resolver events
	var rPlus []string
	rInfo := map[string]string{}
	rPos := map[string][2]int{}
	for _, e := range evs {
		if e.Hook == "R+" {
			rPlus = append(rPlus, e.Path)
			rPos[e.Path] = [2]int{e.Pos, -1}
		}
		if e.Hook == "R-" {
			rInfo[e.Path] = e.Info
			p := rPos[e.Path]
			p[1] = e.Pos
			rPos[e.Path] = p
		}
	}
	anyStartFailed := false
	for _, e := range evs {
		if e.Failed && (e.Hook == "PS" || e.Hook == "VS" || e.Hook == "ES" || e.Hook == "Init") {
			anyStartFailed = true
		}
	}
	startsSeen := map[string]map[string]bool{} // hook[:path] -> ext set
	for i := 0; i < sc.NExt; i++ {
		x := extName(i)
		var mine []extEv
		for _, e := range evs {
			if e.Ext == x {
				mine = append(mine, e)
			}
		}
		word := ""
		count := map[string]int{}
		lastRank := -1
		var openRS *extEv
		hrOK := false
		for k := range mine {
			e := mine[k]
			word += e.Hook
			if e.Failed {
				word += "!"
			}
			word += " "
			rk := c17Rank[e.Hook]
			if rk < lastRank {
				o.Violate("C17/order", "%s: hook %s out of pipeline order in: %s", x, e.Hook, wordOf(mine))
			}
			lastRank = rk
			if e.Hook != "RS" && e.Hook != "RE" {
				count[e.Hook]++
				if count[e.Hook] > 1 {
					o.Violate("C17/finished-twice", "%s: hook %s called %d times: %s", x, e.Hook, count[e.Hook], wordOf(mine))
				}
			}
			switch e.Hook {
			case "PS", "VS", "ES":
				key := e.Hook
				if startsSeen[key] == nil {
					startsSeen[key] = map[string]bool{}
				}
				startsSeen[key][x] = true
			case "RS":
				key := "RS:" + e.Path
				if startsSeen[key] == nil {
					startsSeen[key] = map[string]bool{}
				}
				startsSeen[key][x] = true
				if openRS != nil {
					o.Violate("C17/resolve-unfinished", "%s: RS:%s started while RS:%s was not finished", x, e.Path, openRS.Path)
				}
				openRS = nil
				if !e.Failed && sc.Plan[x+".RS"] != "nilfinish" {
					ee := e
					openRS = &ee
				}
				if strings.HasPrefix(lastSeg(e.Path), "__") {
					// meta fields have no instrumented resolver to enclose
				} else if rp, ok := rPos[e.Path]; !ok || !(e.Pos < rp[0]) {
					o.Violate("C17/resolve-not-enclosing", "%s: RS:%s does not precede the resolver invocation", x, e.Path)
				}
			case "RE":
				if openRS == nil || openRS.Path != e.Path {
					o.Violate("C17/resolve-unbalanced", "%s: RE:%s without matching RS: %s", x, e.Path, wordOf(mine))
				} else if !strings.HasPrefix(lastSeg(e.Path), "__") {
					rp := rPos[e.Path]
					if !(rp[1] >= 0 && rp[1] < e.Pos) {
						o.Violate("C17/resolve-not-enclosing", "%s: RE:%s does not follow the resolver's return", x, e.Path)
					}
					if ri := rInfo[e.Path]; ri == "panic" {
						// a resolver that panicked failed: the phase ends with an error
						if !strings.HasSuffix(e.Info, " err") {
							o.Violate("C17/resolve-outcome", "%s: RE:%s was told %q but the resolver panicked", x, e.Path, e.Info)
						}
					} else if ri != e.Info {
						o.Violate("C17/resolve-outcome", "%s: RE:%s was told %q but the resolver returned %q", x, e.Path, e.Info, ri)
					}
				}
				openRS = nil
			case "HR":
				hrOK = !e.Failed && sc.HasResult[x]
			}
		}
		if openRS != nil {
			o.Violate("C17/resolve-unfinished", "%s: RS:%s never finished: %s", x, openRS.Path, wordOf(mine))
		}
		// balance of the three bracketed phases
		for _, ph := range [][2]string{{"PS", "PE"}, {"VS", "VE"}, {"ES", "EE"}} {
			started, failed := false, false
			for _, e := range mine {
				if e.Hook == ph[0] {
					started, failed = true, e.Failed
				}
			}
			expectFinish := started && !failed && sc.Plan[x+"."+ph[0]] != "nilfinish"
			if expectFinish && count[ph[1]] == 0 {
				o.Violate("C17/unfinished-phase", "%s: phase %s was started but never finished (%s missing): %s", x, ph[0], ph[1], wordOf(mine))
			}
			if !expectFinish && count[ph[1]] > 0 {
				o.Violate("C17/finish-without-start", "%s: %s without a started %s: %s", x, ph[1], ph[0], wordOf(mine))
			}
		}
		if count["GR"] > 0 && !hrOK {
			o.Violate("C17/result-collection", "%s: GetResult called although HasResult did not return true: %s", x, wordOf(mine))
		}
		if hrOK && count["GR"] == 0 {
			o.Violate("C17/result-collection", "%s: HasResult returned true but GetResult was not called: %s", x, wordOf(mine))
		}
		// outcomes handed to the finish functions
		for _, e := range mine {
			switch e.Hook {
			case "PE":
				if (req.Outcome == "syntax") != (e.Info == "err") && !(e.Info == "err" && anyStartFailed) {
					o.Violate("C17/phase-outcome", "%s: parse finished with %q for a request whose outcome is %s", x, e.Info, req.Outcome)
				}
			case "VE":
				if (req.Outcome == "validation") != (e.Info != "nerr=0") && !(e.Info != "nerr=0" && anyStartFailed) {
					o.Violate("C17/phase-outcome", "%s: validation finished with %q for a request whose outcome is %s", x, e.Info, req.Outcome)
				}
			case "EE":
				if e.Info == "nilresult" {
					o.Violate("C17/phase-outcome", "%s: execution finished with a nil result", x)
				} else if want := fmt.Sprintf("data=%v ", res.Data != nil); !strings.HasPrefix(e.Info, want) {
					o.Violate("C17/phase-outcome", "%s: execution finished with %q but the returned result has %s", x, e.Info, want)
				}
			}
		}
		// the resolve notifications equal the resolver invocations
		var rs []string
		for _, e := range mine {
			if e.Hook == "RS" {
				rs = append(rs, e.Path)
			}
		}
		if count["ES"] > 0 && !req.CountKeys && strings.Join(rs, ",") != strings.Join(rPlus, ",") {
			o.Violate("C17/resolve-count", "%s: resolve notifications %v differ from resolver invocations %v", x, rs, rPlus)
		}
		// the panic-free word is exact
		if len(sc.Plan) == 0 {
			want := ""
			pre := "Init PS PE "
			if entry == "plan" {
				pre = ""
			}
			switch req.Outcome {
			case "syntax":
				want = "Init PS PE "
			case "validation":
				want = "Init PS PE VS VE "
			default:
				want = pre
				if entry != "plan" {
					want += "VS VE "
				}
				nFields := len(rPlus)
				if req.CountKeys {
					var dec struct {
						Data interface{} `json:"data"`
					}
					json.Unmarshal([]byte(MarshalResult(res)), &dec)
					nFields = countKeys(dec.Data)
				}
				want += "ES " + strings.Repeat("RS RE ", nFields) + "EE HR "
				if sc.HasResult[x] {
					want += "GR "
				}
			}
			if word != want {
				o.Violate("C17/pipeline", "%s: without any panic the hook sequence is %q, expected %q", x, word, want)
			}
		}
	}
	if req.CountKeys && len(sc.Plan) == 0 && sc.NExt > 0 {
		// every key of every object in the response is one executed field
		var dec struct {
			Data interface{} `json:"data"`
		}
		json.Unmarshal([]byte(MarshalResult(res)), &dec)
		nRS := 0
		for _, e := range evs {
			if e.Ext == extName(0) && e.Hook == "RS" {
				nRS++
			}
		}
		if want := countKeys(dec.Data); nRS != want {
			o.Violate("C17/resolve-count", "the response has %d fields but %s saw %d resolve notifications: %s", want, extName(0), nRS, MarshalResult(res))
		}
	}
	for key, set := range startsSeen {
		if len(set) != sc.NExt {
			o.Violate("C17/isolation", "start hook %s reached only extensions %v of %d", key, SortedKeys(set), sc.NExt)
		}
	}
	// every fired panic is reported in the result
	all := ""
	for _, e := range res.Errors {
		all += e.Message + "\n"
	}
	for _, f := range fired {
		tok, _, _ := strings.Cut(f, ":")
		if tok == "nilfinish" {
			continue
		}
		if parts := strings.SplitN(f, ":", 3); len(parts) == 3 && parts[1] == "evilerr" {
			// the value cannot be rendered (its Error method fails): the report names the hook
			x, hk, _ := strings.Cut(parts[2], ".")
			if !strings.Contains(all, x+"."+c17HookFunc[hk]+":") {
				o.Violate("C17/panic-not-reported", "the panic %s is not reported in Result.Errors: %s", f, strings.ReplaceAll(all, "\n", " | "))
			}
			continue
		}
		if !strings.Contains(all, tok) {
			o.Violate("C17/panic-not-reported", "the panic %s is not reported in Result.Errors: %s", f, strings.ReplaceAll(all, "\n", " | "))
		}
	}
	return o
}

func wordOf(evs []extEv) string {
	var b strings.Builder
	for _, e := range evs {
		b.WriteString(e.Hook)
		if e.Path != "" {
			b.WriteString(":" + e.Path)
		}
		if e.Failed {
			b.WriteString("!")
		}
		b.WriteString(" ")
	}
	return b.String()
}

func countKeys(v interface{}) int {
	n := 0
	switch x := v.(type) {
	case map[string]interface{}:
		for _, c := range x {
			n += 1 + countKeys(c)
		}
	case []interface{}:
		for _, c := range x {
			n += countKeys(c)
		}
	}
	return n
}

// c17Cancel runs a simulated request whose context is cancelled (or expires) at
// a scheduler-chosen point, with instrumented extensions, and judges the hook
// log as it stands when the call returns: whatever the caller gets (the full
// response or the context's error), every phase that was started before the
// return is finished exactly once, and the result collection ran. Resolve
// notifications are not judged here: an abandoned execution may still be
// delivering them.
func c17Cancel(t TestingT, sc *C17Scn, tape *Tape) *Outcome {
	probe := &c16ProbeT{NExt: sc.NExt, HasResult: sc.HasResult}
	c16Probe = probe
	defer func() { c16Probe = nil }()
	o16 := c16{}.Run(t, sc.Cancel, tape)
	// the response itself is C16's business: only the hook log is judged here
	o := o16
	o.Violations = nil
	o.Fire("cancel-scenario", 1)
	if o.Infra != "" || !probe.Returned {
		return o
	}
	if probe.Settled {
		// everything the request started has finished: every resolve
		// notification that was started has been finished, also in an execution
		// the caller had abandoned
		end := parseExtLog(probe.LogAtEnd)
		for i := 0; i < sc.NExt; i++ {
			x := extName(i)
			open := map[string]int{}
			for _, e := range end {
				if e.Ext != x {
					continue
				}
				switch e.Hook {
				case "RS":
					if !e.Failed {
						open[e.Path]++
					}
				case "RE":
					open[e.Path]--
				}
			}
			for _, path := range SortedKeys(open) {
				if open[path] != 0 {
					o.Violate("C17/resolve-unfinished", "%s: when everything the request started had finished, RS:%s was started %+d times more than finished (the caller had returned with data=%v)", x, path, open[path], probe.HasData)
					break
				}
			}
		}
		o.Probe("settled-log-judged")
	}
	evs := parseExtLog(probe.LogAtReturn)
	for i := 0; i < sc.NExt; i++ {
		x := extName(i)
		count := map[string]int{}
		failed := map[string]bool{}
		var mine []extEv
		for _, e := range evs {
			if e.Ext != x {
				continue
			}
			mine = append(mine, e)
			count[e.Hook]++
			if e.Failed {
				failed[e.Hook] = true
			}
		}
		for _, ph := range [][2]string{{"PS", "PE"}, {"VS", "VE"}, {"ES", "EE"}} {
			if count[ph[0]] > 1 || count[ph[1]] > 1 {
				o.Violate("C17/finished-twice", "%s: %s/%s called %d/%d times by the time the call returned: %s", x, ph[0], ph[1], count[ph[0]], count[ph[1]], wordOf(mine))
			}
			if count[ph[0]] == 1 && count[ph[1]] == 0 {
				o.Violate("C17/unfinished-phase", "%s: phase %s was started but not finished when the call returned (context %v): %s", x, ph[0], "cancelled or expired", wordOf(mine))
			}
			if count[ph[0]] == 0 && count[ph[1]] > 0 {
				o.Violate("C17/finish-without-start", "%s: %s without a started %s: %s", x, ph[1], ph[0], wordOf(mine))
			}
		}
		if count["ES"] == 1 {
			if count["HR"] != 1 {
				o.Violate("C17/result-collection", "%s: HasResult called %d times by the time the call returned: %s", x, count["HR"], wordOf(mine))
			}
			if want := sc.HasResult[x]; (count["GR"] == 1) != want || count["GR"] > 1 {
				o.Violate("C17/result-collection", "%s: GetResult called %d times (HasResult=%v) by the time the call returned: %s", x, count["GR"], want, wordOf(mine))
			}
			for _, e := range mine {
				if e.Hook == "EE" {
					if want := fmt.Sprintf("data=%v ", probe.HasData); !strings.HasPrefix(e.Info, want) {
						o.Violate("C17/phase-outcome", "%s: execution finished with %q but the returned result has %s", x, e.Info, want)
					}
				}
			}
		}
	}
	return o
}
