package sim

import (
	"testing"
	"testing/synctest"
)

// TestingT is the *testing.T of the driver test.
type TestingT = *testing.T

func runBubble(t *testing.T, f func()) {
	synctest.Test(t, func(*testing.T) { f() })
}
