package sim

import (
	"context"
	"encoding/json"
	"fmt"
	"os"
	"regexp"
	"strings"

	"github.com/graphql-go/graphql"
)

// C07 — one schema, plan and plan cache can serve concurrent requests safely.
//
// 2-4 client tasks share one cold schema value, prepared plans and a plan
// cache. The seeded scheduler interleaves them at client steps, instrumented
// callbacks and the library's yield hooks. Oracles: the race detector (race
// build, simulator hand-offs hidden from it), no panic, no deadlock, every
// response equal to the solo response, cache bound respected.

type c07Req struct {
	Name  string
	Query string
	Vars  map[string]interface{}
}

var c07Reqs = []c07Req{
	{"enum-out", `{ leafy { e le } a { kind items(n:2) { kind } } }`, nil},
	{"enum-in", `{ echo(e:BETA, f:{kind:GAMMA, min:2}) echo2(e:ALPHA) }`, nil},
	{"enum-var", `query($e:Kind, $f:Filter){ echo(e:$e, f:$f) }`, map[string]interface{}{"e": "GAMMA", "f": map[string]interface{}{"kind": "BETA"}}},
	{"iface-list", `{ nodes(n:3) { id kind ... on A { aOnly } ... on B { bOnly } ... on C { cOnly } } }`, nil},
	{"union", `{ u { ... on A { aOnly kind } ... on B { bOnly nn { e } } } }`, nil},
	{"nested-abstract", `{ node { id peer { id kind peer { id ... on B { u { ... on A { aOnly } ... on B { bOnly } } } ... on A { u { ... on B { bOnly } } } } } } }`, nil},
	{"nested-abstract-2", `{ b { nodes(n:2) { id peer { kind ... on C { deep { node { id kind } } } ... on A { items(n:1) { owner { id } } } } } } }`, nil},
	{"frag-abstract", `{ a { ...N } b { ...N } c { ...N } } fragment N on Node { id kind peer { ... on A { aOnly } ... on B { bOnly } ... on C { cOnly } } }`, nil},
	{"introspect", `{ __type(name:"Kind") { kind enumValues { name } } __schema { types { kind } } }`, nil},
	{"mutation", `mutation { m1(v:1) { kind nodes(n:2) { kind } } s1(v:2) }`, nil},
	{"invalid", `{ nope node { zzz } }`, nil},
	{"scalars", `{ x1 x2 leafy { s i } }`, nil},
	{"typed-fragment-merge", `{ a { ...P } c { ...P } nodes(n:3) { ...P } } fragment P on Node { peer(as:"B") { id } ... on A { peer(as:"B") { ... on B { bOnly } } } ... on C { peer(as:"B") { name } } }`, nil},
	// one document whose merged selection of an abstract field depends on the
	// runtime type of the parent, which the variables choose
	{"abs-merge-A", `query($t:String){ node(as:$t) { peer(as:"B") { id } ... on A { peer(as:"B") { ... on B { bOnly } } } ... on C { peer(as:"B") { name } } } }`, map[string]interface{}{"t": "A"}},
	{"abs-merge-B", `query($t:String){ node(as:$t) { peer(as:"B") { id } ... on A { peer(as:"B") { ... on B { bOnly } } } ... on C { peer(as:"B") { name } } } }`, map[string]interface{}{"t": "B"}},
	{"abs-merge-C", `query($t:String){ node(as:$t) { peer(as:"B") { id } ... on A { peer(as:"B") { ... on B { bOnly } } } ... on C { peer(as:"B") { name } } } }`, map[string]interface{}{"t": "C"}},
	{"dir-var-true", `query($s:Boolean!){ x1 @skip(if:$s) x2 a { name @include(if:$s) id } }`, map[string]interface{}{"s": true}},
	{"dir-var-false", `query($s:Boolean!){ x1 @skip(if:$s) x2 a { name @include(if:$s) id } }`, map[string]interface{}{"s": false}},
	{"enum-list-var", `query($ks:[Kind]){ echo2(ks:$ks) }`, map[string]interface{}{"ks": []interface{}{"BETA", "GAMMA", "ALPHA"}}},
	{"field-errors", `{ x1 leafy { s sNN } a { name } }`, nil},
	{"object-field-merge", `{ nodes(n:3) { meta { s } ... on A { meta { i } } ... on C { meta { f b } } } node { meta { s } ... on A { meta { i } } ... on B { meta { id } } } }`, nil},
	{"fieldresolver-static-args", `{ plainFR { echoArg(x:5, y:2) e2: echoArg name } x1 }`, nil},
	// executed only as an unvalidated prepared plan: the literal makes user code
	// (ParseLiteral) panic while an abstract alternative is being planned lazily
	{"lazy-plan-panic", `{ node(as:"A") { id ... on A { aOnly(st:"PANIC") } } nodes(n:2, as:"B") { ... on B { u(as:"A") { ... on A { name } } } } x1 }`, nil},
	{"nested-single-possible", `{ nodes(n:3) { id ... on A { solo { ... on B { bOnly } } } ... on C { solo { ... on B { id kind } } } } c { solo { ... on B { u { ... on A { solo { ... on B { id } } } } } } } }`, nil},
	// literal variants of one shape: under the normalising cache they share a plan
	// (same text length: with Normalize on, error locations of a shared plan are
	// those of the request that created it - recorded under C06 as F-C06-5)
	// subscriptions on the shared schema (graphql.Subscribe: the set-up path with
	// its own field collection and argument coercion, the forwarding goroutine and
	// one nested execution per event); always issued as "sub" operations
	// default-resolved struct sources of a Go type that this run's world created:
	// whatever the library memoises per source type is first used here, by
	// several clients, field name by field name (gated resolvers in between)
	{"dyn-struct-1", `{ plainDyn { name } x1 p2: plainDyn { n } x2 p3: plainDyn { tag } plainA { name } }`, nil},
	{"dyn-struct-2", `{ plainDyn { tag } x2 p2: plainDyn { name } x1 p3: plainDyn { n } plainTagged { n tag } }`, nil},
	{"sub-events", `subscription { events(k:BETA, n:1) { id kind nodes(n:2) { id kind ... on A { aOnly } } u { ... on B { bOnly } ... on A { kind } } } }`, nil},
	{"sub-vars", `subscription($k:Kind, $st:Stamp, $n:Int){ events(k:$k, st:$st, n:$n) { id kind nn { e } peer { id kind } } }`, map[string]interface{}{"k": "GAMMA", "st": "s1", "n": 1}},
	{"sub-ticks", `subscription { ticks { s e le } }`, nil},
	{"lit-1", `{ echo(i:1, s:"one") a { items(n:1) { n } } }`, nil},
	{"lit-2", `{ echo(i:2, s:"two") a { items(n:2) { n } } }`, nil},
	{"lit-3", `{ echo(i:3, s:"six") a { items(n:3) { n } } }`, nil},
}

// index of the first literal variant
var c07LitBase = func() int {
	for i, r := range c07Reqs {
		if r.Name == "lit-1" {
			return i
		}
	}
	panic("c07: lit-1 missing")
}()

type C07Op struct {
	Kind string `json:"kind"` // do | cache | plan | validate | reset
	Req  int    `json:"req"`
}

type C07Client struct {
	World   int     `json:"world,omitempty"` // which of the two same-shape schemas the client uses
	Variant uint64  `json:"variant"`
	Ops     []C07Op `json:"ops"`
}

type C07Scn struct {
	// Gen: generated documents (gendoc.go); request index len(pool)+i refers to Gen[i]
	Gen []GenDoc `json:"gen,omitempty"`
	// Faults makes the same resolvers fail for every client (first failures of a
	// field of a shared plan happening on several goroutines)
	Faults     map[string]string `json:"faults,omitempty"`
	Clients    []C07Client       `json:"clients"`
	MaxEntries int               `json:"max_entries"`
	Normalize  bool              `json:"normalize"`
	// ForeignEnum: resolvers return enum values in a Go type other than the declared one
	ForeignEnum bool `json:"foreign_enum,omitempty"`
	Park       []string          `json:"park"`
	Sticky     int               `json:"stickiness"`
}

// c07ReqAt resolves a request index of a scenario.
func c07ReqAt(sc *C07Scn, i int) c07Req {
	if i < len(c07Reqs) {
		return c07Reqs[i]
	}
	g := sc.Gen[i-len(c07Reqs)]
	return c07Req{Name: fmt.Sprintf("generated-%d", i-len(c07Reqs)), Query: g.Query, Vars: normaliseJSONInts(g.Vars).(map[string]interface{})}
}

type c07 struct{}

func init() { Register(c07{}) }

func (c07) ID() string               { return "C07" }
func (c07) EnumSize(tier string) int { return 0 }

var c07AllPark = []string{"resolver", "rtype", "plan.exec.start", "plan.exec.send", "plan.abstract.lock", "cache.lookup.lock", "cache.store.lock", "cache.reset.lock", "client", "sub.fwd.start", "sub.fwd.select"}

// c07SubSource is the event source of the subscription requests: two events,
// already waiting in a closed stream (stateless, so that several clients can
// subscribe at once).
func c07SubSource(p graphql.ResolveParams) (interface{}, error) {
	c := make(chan interface{}, 2)
	base := 0
	if p.Info.FieldName == "ticks" {
		base = 100
	}
	c <- Ev{N: base}
	c <- Ev{N: base + 1}
	close(c)
	return c, nil
}

// c07Subscribe drains one subscription.
func c07Subscribe(w *World, rq c07Req, ctx context.Context) string {
	var all []string
	for r := range graphql.Subscribe(graphql.Params{Schema: w.Schema, RequestString: rq.Query, VariableValues: deepCopyVars(rq.Vars), Context: ctx}) {
		all = append(all, MarshalResult(r))
	}
	return "[" + strings.Join(all, ",") + "]"
}

func (p c07) Gen(seed uint64, enum int, tier string) json.RawMessage {
	r := NewRNG(seed)
	s := C07Scn{MaxEntries: 1 + r.Intn(3), Normalize: r.Chance(40), Sticky: []int{0, 30, 60, 85}[r.Intn(4)]}
	nc := 2 + r.Intn(3)
	// a small working set makes the clients meet on the same lazily built state
	work := make([]int, 1+r.Intn(3))
	for i := range work {
		work[i] = r.Intn(len(c07Reqs))
	}
	if r.Chance(30) {
		// generated documents (nested abstract selections, typed fragments,
		// variable-driven directives) join the working set
		for n := 1 + r.Intn(2); n > 0; n-- {
			s.Gen = append(s.Gen, GenQueryDoc(NewRNG(r.Uint64()), c04GenWorld(), 6+r.Intn(25), true))
			work = append(work, len(c07Reqs)+len(s.Gen)-1)
		}
	}
	kinds := []string{"do", "do", "do", "cache", "cache", "cache", "plan", "plan", "plan", "validate", "reset", "stats"}
	maxOps := 4
	s.ForeignEnum = r.Chance(25)
	// sometimes the clients are spread over two schemas of the same shape (a
	// rebuilt schema: other pointer) that share the cache
	twoWorlds := r.Chance(25)
	switch flavour := r.Intn(10); {
	case flavour < 2:
		// cache hammer: several keys kept warm and hit by everybody
		kinds = []string{"cache", "cache", "cache", "cache", "cache", "cache", "cache", "reset", "stats", "stats"}
		s.MaxEntries = 3
		maxOps = 6
		work = work[:0]
		for i := 0; i < 2+r.Intn(2); i++ {
			work = append(work, r.Intn(len(c07Reqs)))
		}
	case flavour < 4:
		// literal variants of one shape through the normalising cache: two
		// clients may miss the same normalised key at the same time
		kinds = []string{"cache", "cache", "cache", "do"}
		s.Normalize = true
		work = []int{c07LitBase, c07LitBase + 1, c07LitBase + 2}[:2+r.Intn(2)]
	}
	for c := 0; c < nc; c++ {
		cl := C07Client{Variant: r.Uint64() % 7}
		if twoWorlds {
			cl.World = r.Intn(2)
		}
		for n := 1 + r.Intn(maxOps); n > 0; n-- {
			kind := kinds[r.Intn(len(kinds))]
			req := work[r.Intn(len(work))]
			if c07ReqAt(&s, req).Name == "lazy-plan-panic" {
				kind = "plan" // this document never passes validation's literal check unharmed
			}
			if strings.HasPrefix(c07ReqAt(&s, req).Query, "subscription") && kind != "validate" && kind != "reset" && kind != "stats" {
				kind = "sub"
			}
			cl.Ops = append(cl.Ops, C07Op{Kind: kind, Req: req})
		}
		s.Clients = append(s.Clients, cl)
	}
	if r.Chance(30) {
		s.Faults = map[string]string{}
		for _, wi := range work {
			rq := c07ReqAt(&s, wi)
			if strings.HasPrefix(rq.Query, "subscription") {
				continue
			}
			paths := dryPaths(rq.Query, rq.Vars, s.Clients[0].Variant)
			for k := 1 + r.Intn(2); k > 0 && len(paths) > 0; k-- {
				s.Faults["R@"+paths[r.Intn(len(paths))]] = []string{FErr, FErr, FPanicStr, FNil}[r.Intn(4)]
			}
		}
	}
	for _, c := range c07AllPark {
		if r.Chance(65) {
			s.Park = append(s.Park, c)
		}
	}
	return mustJSON(s)
}

func (c07) Shrink(scn json.RawMessage) []json.RawMessage {
	var s C07Scn
	json.Unmarshal(scn, &s)
	var out []json.RawMessage
	if len(s.Clients) > 2 {
		for i := range s.Clients {
			t := s
			t.Clients = append(append([]C07Client(nil), s.Clients[:i]...), s.Clients[i+1:]...)
			out = append(out, mustJSON(t))
		}
	}
	for i, c := range s.Clients {
		for j := range c.Ops {
			if len(c.Ops) <= 1 {
				continue
			}
			t := s
			t.Clients = append([]C07Client(nil), s.Clients...)
			nc := c
			nc.Ops = append(append([]C07Op(nil), c.Ops[:j]...), c.Ops[j+1:]...)
			t.Clients[i] = nc
			out = append(out, mustJSON(t))
		}
	}
	return out
}

func c07Root(q string) string {
	if strings.HasPrefix(q, "mutation") {
		return "Mutation"
	}
	return "Query"
}

// c07Solo computes the response of one operation run alone on a cold schema.
// dryPaths returns the resolver paths of the fault-free run of a request.
var dryPathCache = map[string][]string{}

func dryPaths(query string, vars map[string]interface{}, variant uint64) []string {
	key := fmt.Sprintf("%s/%v/%d", query, vars, variant)
	if p, ok := dryPathCache[key]; ok {
		return p
	}
	w := NewWorld("A")
	rc := &ReqCtx{Task: "dry", W: w, Variant: variant}
	graphql.Do(graphql.Params{Schema: w.Schema, RequestString: query, VariableValues: vars, Context: WithReq(context.Background(), rc)})
	p := SortedKeys(rc.Seen)
	dryPathCache[key] = p
	return p
}

func c07Solo(rq c07Req, op C07Op, variant uint64, world int, faults map[string]string, foreignEnum bool) string {
	w := NewWorld([]string{"A", "B"}[world])
	rc := &ReqCtx{Task: "solo", W: w, Variant: variant, Faults: faults, ForeignEnum: foreignEnum, RootTok: Tok{T: c07Root(rq.Query)}}
	ctx := WithReq(context.Background(), rc)
	switch op.Kind {
	case "validate":
		doc, err := parseDoc(rq.Query)
		if err != nil {
			return "syntax"
		}
		b, _ := json.Marshal(graphql.ValidateDocument(&w.Schema, doc, nil))
		return string(b)
	case "reset":
		return "reset"
	case "stats":
		return "stats"
	case "sub":
		w.SubSource = c07SubSource
		return c07Subscribe(w, rq, ctx)
	}
	if rq.Name == "lazy-plan-panic" {
		doc, _ := parseDoc(rq.Query)
		pl, err := graphql.PlanQuery(&w.Schema, doc, "")
		if err != nil {
			return "plan error: " + err.Error()
		}
		w.PanicLiteral = true
		return MarshalResult(graphql.ExecutePlan(pl, graphql.ExecuteParams{Schema: w.Schema, Args: rq.Vars, Context: ctx}))
	}
	return MarshalResult(graphql.Do(graphql.Params{Schema: w.Schema, RequestString: rq.Query, VariableValues: deepCopyVars(rq.Vars), Context: ctx}))
}

func deepCopyVars(m map[string]interface{}) map[string]interface{} {
	if m == nil {
		return nil
	}
	return deepCopy(m).(map[string]interface{})
}

func (c07) Run(t TestingT, scn json.RawMessage, tape *Tape) *Outcome {
	var sc C07Scn
	if err := json.Unmarshal(scn, &sc); err != nil {
		return &Outcome{Infra: "bad scenario: " + err.Error()}
	}
	o := &Outcome{}
	// solo references first (outside the simulator, separate cold schemas)
	solo := map[string]string{}
	for ci, cl := range sc.Clients {
		for oi, op := range cl.Ops {
			solo[fmt.Sprintf("c%d.%d", ci+1, oi)] = c07Solo(c07ReqAt(&sc, op.Req), op, cl.Variant, cl.World, sc.Faults, sc.ForeignEnum)
		}
	}
	s := NewSim(tape)
	s.Stickiness = sc.Sticky
	s.StepCap = 4000
	for _, c := range sc.Park {
		s.ParkSites[c] = true
	}
	var cache *graphql.PlanCache
	overflow := ""
	inAbstract := map[string]bool{}
	firstEnum := map[string]bool{}
	s.OnEvent = func(ev *Event) {
		if ev.Kind == "run" || ev.Kind == "act" {
			// (not in the race build: taking the cache's lock from the scheduler
			// at every step would order all accesses to the cache and hide races)
			if cache != nil && !RaceBuild {
				if ml, ll := graphql.PlanCacheLenForVerif(cache); (ml > sc.MaxEntries || ll > sc.MaxEntries || ml != ll) && overflow == "" {
					overflow = fmt.Sprintf("at step %d the cache holds %d map / %d list entries, maximum %d", ev.Step, ml, ll, sc.MaxEntries)
				}
			}
		}
		base, _, _ := strings.Cut(ev.Task, "/")
		if ev.Site == "plan.abstract.lock" && ev.Kind == "park" {
			if !inAbstract[base] {
				inAbstract[base] = true
				if len(inAbstract) == 2 {
					o.Probe("two-clients-at-abstract-lock")
				}
			}
		}
		if ev.Site == "plan.abstract.lock" && ev.Kind == "run" {
			delete(inAbstract, base)
		}
		if strings.HasPrefix(ev.Site, "resolver:") && strings.HasSuffix(ev.Site, "kind") {
			if !firstEnum[base] {
				firstEnum[base] = true
				if len(firstEnum) == 2 {
					o.Probe("enum-used-by-two-clients")
				}
			}
		}
		if ev.Site == "cache.store.lock" && ev.Kind == "park" {
			o.Probe("parked-before-cache-store")
		}
	}
	pan := Bubble(t, s, func() {
		worlds := []*World{NewWorld("A"), NewWorld("B")} // cold: nothing lazily initialised by a request yet
		worlds[0].SubSource, worlds[1].SubSource = c07SubSource, c07SubSource
		cache = graphql.NewPlanCache(graphql.PlanCacheOptions{MaxEntries: sc.MaxEntries, Normalize: sc.Normalize})
		// prepared plans shared by all clients of a schema (planned, not yet executed)
		plans := map[string]*graphql.Plan{} // keyed by schema and query text (requests that differ in variables only share the plan)
		panicWorlds := map[int]bool{}
		defer func() {
			for wi := range panicWorlds {
				worlds[wi].PanicLiteral = false
			}
		}()
		for _, cl := range sc.Clients {
			w := worlds[cl.World]
			for _, op := range cl.Ops {
				if op.Kind != "plan" {
					continue
				}
				if _, ok := plans[fmt.Sprintf("%d|%s", cl.World, c07ReqAt(&sc, op.Req).Query)]; ok {
					continue
				}
				rq := c07ReqAt(&sc, op.Req)
				var pl *graphql.Plan
				if rq.Name == "lazy-plan-panic" {
					// prepared without validation; the literal turns hostile afterwards
					if doc, err := parseDoc(rq.Query); err == nil {
						pl, _ = graphql.PlanQuery(&w.Schema, doc, "")
					}
					panicWorlds[cl.World] = true
				} else if doc, err := parseDoc(rq.Query); err == nil && graphql.ValidateDocument(&w.Schema, doc, nil).IsValid {
					pl, _ = graphql.PlanQuery(&w.Schema, doc, "")
				}
				plans[fmt.Sprintf("%d|%s", cl.World, c07ReqAt(&sc, op.Req).Query)] = pl
			}
		}
		for wi := range panicWorlds {
			worlds[wi].PanicLiteral = true
		}
		for ci := range sc.Clients {
			cl := sc.Clients[ci]
			name := fmt.Sprintf("c%d", ci+1)
			w := worlds[cl.World]
			s.Spawn(name, func(tc *TaskCtx) {
				defer func() {
					if r := recover(); r != nil {
						tc.Out["panic"] = fmt.Sprint(r)
					}
				}()
				held := map[string]*graphql.Result{}
				defer func() {
					// the results are still held when the client ends: they must
					// read as they did when they were returned
					for key, r := range held {
						tc.Out[key+":late"] = MarshalResult(r)
					}
				}()
				for oi, op := range cl.Ops {
					rq := c07ReqAt(&sc, op.Req)
					s.Gate(name, "client:op", fmt.Sprintf("%d %s %s", oi, op.Kind, rq.Name))
					rc := &ReqCtx{Task: name, Req: oi, W: w, Variant: cl.Variant, Faults: sc.Faults, ForeignEnum: sc.ForeignEnum, Gates: true, RootTok: Tok{T: c07Root(rq.Query)}}
					ctx := WithReq(WithTask(context.Background(), name), rc)
					key := fmt.Sprintf("%s.%d", name, oi)
					switch op.Kind {
					case "do":
						held[key] = graphql.Do(graphql.Params{Schema: w.Schema, RequestString: rq.Query, VariableValues: rq.Vars, Context: ctx})
						tc.Out[key] = MarshalResult(held[key])
					case "cache":
						pr := cache.Get(&w.Schema, rq.Query, "")
						if len(pr.Errors) > 0 || pr.Plan == nil {
							tc.Out[key] = MarshalResult(&graphql.Result{Errors: pr.Errors})
						} else {
							held[key] = graphql.ExecutePlan(pr.Plan, graphql.ExecuteParams{Schema: w.Schema, Args: mergeArgs(rq.Vars, pr.SynthArgs), Context: ctx})
							tc.Out[key] = MarshalResult(held[key])
						}
					case "plan":
						if pl := plans[fmt.Sprintf("%d|%s", cl.World, c07ReqAt(&sc, op.Req).Query)]; pl != nil {
							tc.Out[key] = MarshalResult(graphql.ExecutePlan(pl, graphql.ExecuteParams{Schema: w.Schema, Args: rq.Vars, Context: ctx}))
						} else {
							tc.Out[key] = MarshalResult(graphql.Do(graphql.Params{Schema: w.Schema, RequestString: rq.Query, VariableValues: rq.Vars, Context: ctx}))
						}
					case "validate":
						doc, err := parseDoc(rq.Query)
						if err != nil {
							tc.Out[key] = "syntax"
						} else {
							b, _ := json.Marshal(graphql.ValidateDocument(&w.Schema, doc, nil))
							tc.Out[key] = string(b)
						}
					case "reset":
						cache.Reset()
						tc.Out[key] = "reset"
					case "stats":
						// a metrics scrape next to the request path
						cache.HitsMisses()
						tc.Out[key] = "stats"
					case "sub":
						tc.Out[key] = c07Subscribe(w, rq, ctx)
						tc.Out["fired:subscription-drained"] = fmt.Sprint(atoiOr0(tc.Out["fired:subscription-drained"]) + 1)
					}
					_, fired, _, _ := rc.Snapshot()
					for k, n := range fired {
						tc.Out["fired:"+k] = fmt.Sprint(atoiOr0(tc.Out["fired:"+k]) + n)
					}
				}
			})
		}
		s.Run()
	})
	o.AbsorbSim(s)
	o.KeepTrace(s)
	o.Nontrivial = s.Switches > 0
	o.Sample = map[string]interface{}{"scenario": sc, "switches": s.Switches, "steps": s.Step}
	if pan != nil {
		o.Violate("C07/panic-or-blocked", "the bubble ended with: %v; leftovers=%v", pan, s.Leaked)
	}
	if s.Stuck || s.CapHit {
		o.Violate("C07/deadlock", "clients did not finish: stuck=%v cap=%v unfinished=%v blocked=%v", s.Stuck, s.CapHit, s.StuckOn, s.Leaked)
		return o
	}
	if overflow != "" {
		o.Violate("C07/cache-overflow", "%s", overflow)
	}
	for ci, cl := range sc.Clients {
		name := fmt.Sprintf("c%d", ci+1)
		outs := s.Outs[name]
		if outs == nil {
			o.Violate("C07/client-unfinished", "client %s did not finish", name)
			continue
		}
		for k, v := range outs {
			if strings.HasPrefix(k, "fired:") {
				o.Fire(k[len("fired:"):], atoiOr0(v))
			}
		}
		if p, ok := outs["panic"]; ok {
			o.Violate("C07/panic", "client %s panicked: %s", name, p)
			continue
		}
		for oi, op := range cl.Ops {
			key := fmt.Sprintf("%s.%d", name, oi)
			if late, ok := outs[key+":late"]; ok && late != outs[key] {
				o.Violate("C07/result-changed-after-return", "client %s op %d (%s %s): the returned result reads differently at the end of the run\n returned: %s\n    later: %s", name, oi, op.Kind, c07ReqAt(&sc, op.Req).Name, outs[key], late)
			}
			if got, want := outs[key], solo[key]; got != want {
				o.Violate("C07/response-differs", "client %s op %d (%s %s): response under concurrency differs from the response when run alone\n  got: %s\n solo: %s", name, oi, op.Kind, c07ReqAt(&sc, op.Req).Name, got, want)
			}
		}
	}
	if RaceBuild {
		for _, v := range newRaceReports("C07") {
			if v.Class == "C07/harness-race" {
				o.Infra = "race report without a library frame (harness bug):\n" + v.Detail
			} else {
				o.Violations = append(o.Violations, v)
			}
		}
	}
	return o
}

// ---- race detector reports ---------------------------------------------------

var raceLogOffset int64

var reFrame = regexp.MustCompile(`(?m)^  (\S+)\(\)\s*$`)

// newRaceReports parses what the race detector appended to its log since the
// last call into violations.
func newRaceReports(prop string) []Violation {
	p := os.Getenv("VERIF_RACE_LOG")
	if p == "" {
		return nil
	}
	b, err := os.ReadFile(p + "." + itoa(os.Getpid()))
	if err != nil || int64(len(b)) <= raceLogOffset {
		return nil
	}
	txt := string(b[raceLogOffset:])
	raceLogOffset = int64(len(b))
	var out []Violation
	for _, rep := range strings.Split(txt, "==================") {
		if !strings.Contains(rep, "WARNING: DATA RACE") {
			continue
		}
		// the two access stacks are the first two paragraphs
		paras := strings.Split(strings.TrimSpace(rep), "\n\n")
		var tops []string
		lib := false
		for i, para := range paras {
			if i >= 2 {
				break
			}
			top := "?"
			for _, m := range reFrame.FindAllStringSubmatch(para, -1) {
				fn := m[1]
				// the access is attributed to the innermost frame that is library
				// or harness code; standard-library frames above it (container/list,
				// reflect, sync, runtime ...) are skipped
				if !strings.HasPrefix(fn, "github.com/graphql-go/graphql") && !strings.HasPrefix(fn, "verif/sim") {
					continue
				}
				top = fn
				break
			}
			if strings.HasPrefix(top, "github.com/graphql-go/graphql") && !strings.Contains(top, "/verifmo.") {
				lib = true
			}
			tops = append(tops, strings.TrimPrefix(top, "github.com/graphql-go/graphql."))
		}
		allocBy := ""
		if !lib && len(paras) >= 2 {
			// Both accesses are in user callbacks that the library invoked
			// (library frames beneath the callback frame): they raced on an object
			// both were handed - an argument map, a variable map, a path. The
			// harness's own state in callbacks is mutex-protected and the
			// scheduler never appears in such a stack.
			invoked := 0
			for _, para := range paras[:2] {
				seenHarness, seenLibBelow := false, false
				for _, m := range reFrame.FindAllStringSubmatch(para, -1) {
					fn := m[1]
					if strings.HasPrefix(fn, "verif/sim") {
						if seenLibBelow {
							break
						}
						seenHarness = true
					} else if strings.HasPrefix(fn, "github.com/graphql-go/graphql") && seenHarness {
						seenLibBelow = true
					}
				}
				if seenHarness && seenLibBelow {
					invoked++
				}
			}
			if invoked == 2 {
				allocBy = "the library (both callbacks were invoked by it)"
				lib = true
			}
		}
		if !lib {
			// Both accesses are in user callbacks. If the memory was allocated by
			// library code (an argument map, a variable map, a path handed to two
			// invocations), sharing it is the library's doing.
			for _, para := range paras {
				if !strings.HasPrefix(strings.TrimSpace(para), "Location is heap block") {
					continue
				}
				for _, m := range reFrame.FindAllStringSubmatch(para, -1) {
					fn := m[1]
					if strings.HasPrefix(fn, "verif/sim") {
						break
					}
					if strings.HasPrefix(fn, "github.com/graphql-go/graphql") && !strings.Contains(fn, "/verifmo.") {
						allocBy = strings.TrimPrefix(fn, "github.com/graphql-go/graphql.")
						lib = true
						break
					}
				}
			}
		}
		if len(rep) > 3500 {
			rep = rep[:3500]
		}
		if allocBy != "" {
			out = append(out, Violation{Class: prop + "/data-race", Detail: "data race between two user callbacks on an object handed out by " + allocBy + "\n" + rep})
			continue
		}
		if !lib {
			out = append(out, Violation{Class: prop + "/harness-race", Detail: rep})
			continue
		}
		if len(tops) == 2 && tops[1] < tops[0] {
			tops[0], tops[1] = tops[1], tops[0]
		}
		out = append(out, Violation{Class: prop + "/data-race", Detail: "data race between " + strings.Join(tops, " and ") + "\n" + rep})
	}
	return out
}

func atoiOr0(s string) int {
	n := 0
	for _, c := range s {
		if c < '0' || c > '9' {
			return 0
		}
		n = n*10 + int(c-'0')
	}
	return n
}
