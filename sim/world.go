package sim

import (
	"reflect"
	"runtime"
	"context"
	"encoding/json"
	"errors"
	"fmt"
	"math"
	"sort"
	"strconv"
	"strings"
	"sync"
	"sync/atomic"

	"github.com/graphql-go/graphql"
	"github.com/graphql-go/graphql/gqlerrors"
	"github.com/graphql-go/graphql/language/ast"
)

// sentinelError is one error object shared by every request of the process,
// as applications do with package-level error values.
var sentinelError = gqlerrors.NewError("shared sentinel error", nil, "", nil, nil, nil)

// The simulated world (DESIGN.md §4): one schema whose every callback is an
// instrumented closure. Values are derived only from (coordinate, response
// path, arguments, request variant), object positions are Tok tokens.

// Tok is the value at every object position: the concrete type it stands for
// and the response path at which it was produced.
type Tok struct {
	T string // concrete object type name
	P string // response path ("" = root)
	R int    // request ordinal that produced it (root tokens carry the request's)
}

// Ev is the payload of one subscription source event.
type Ev struct{ N int }

// StampV is the internal value of the custom scalar Stamp. Mode selects a
// serialisation fault decided by the resolver that produced it.
type StampV struct {
	S    string
	Mode string
}

// Fault kinds (fault plan values).
const (
	FErr         = "err"                // resolver returns (nil, error)
	FValErr      = "valerr"             // resolver returns (value, error)
	FPanicErr    = "panic_err"          // panic(error)
	FPanicStr    = "panic_str"          // panic("string")
	FPanicInt    = "panic_int"          // panic(42)
	FNil         = "nil"                // returns nil
	FTypedNil    = "typednil"           // returns (*Tok)(nil) / (*string)(nil)
	FThunk       = "thunk"              // returns a thunk that yields the normal value
	FThunk2      = "thunk2"             // returns a thunk that yields another thunk, which yields the normal value
	FThunkErr    = "thunk_err"          // thunk returns an error
	FThunkPanic  = "thunk_panic"        // thunk panics
	FThunkNil    = "thunk_nil"          // thunk returns nil
	FThunkBad    = "thunk_badsig"       // a func of the wrong signature
	FThunkValErr = "thunk_valerr"       // thunk returns (value, error)
	FWrongKind   = "wrongkind"          // a Go value of the wrong kind for the position
	FNaN         = "nan"                // NaN for a numeric leaf
	FBigInt      = "bigint"             // out-of-range integer for Int
	FBigIntStr   = "bigint_str"         // a decimal string outside the 32-bit range
	FBadEnum     = "badenum"            // unknown internal enum value
	FNotIter     = "notiter"            // non-iterable for a list position
	FRTNil       = "rt_nil"             // ResolveType returns nil
	FRTWrong     = "rt_wrong"           // ResolveType returns a non-possible object type
	FRTOther     = "rt_other"           // ResolveType returns a possible type of another abstract type, not of this one
	FRTPanic     = "rt_panic"           // ResolveType panics
	FITFalse     = "it_false"           // IsTypeOf returns false
	FITPanic     = "it_panic"           // IsTypeOf panics
	FSerNil      = "ser_nil"            // custom scalar Serialize returns nil
	FSerPanic    = "ser_panic"          // custom scalar Serialize panics
	FHostile     = "hostile"            // resolver mutates the Args map it was handed
	FErrMsg      = "errmsg:"            // prefix: resolver returns (nil, errors.New(rest))
	FForeignErr  = "foreign_err"        // resolver returns a FormattedError taken from another response (own path and locations)
	FSentinelErr = "sentinel_err"       // resolver returns a process-wide *gqlerrors.Error value
	FSharedErr   = "shared_err"         // resolver returns one package-level error value (like sql.ErrNoRows) wherever it fires
	FElemPanic   = "elem_panic"         // list of leaves: element 1 makes the leaf's Serialize panic
	FElemThunk   = "elem_thunk"         // list: every element is a thunk yielding the normal element
	FCancelCtx   = "cancel_ctx"         // resolver cancels the request context (then returns normally)
	FBlockCancel = "block_until_cancel" // resolver waits for the request context to be done, then fails with its error
	FHostileVars = "hostile_vars"       // resolver overwrites the entries of Info.VariableValues
	FGoexit      = "goexit"             // resolver ends its goroutine with runtime.Goexit (t.FailNow in a resolver)
	FObserveCtx  = "observe"            // resolver returns ctx.Err() if the context is done
)

// ReqCtx is the per-request instrumentation state, carried by the context.
type ReqCtx struct {
	Task    string
	Req     int
	W       *World
	Variant uint64
	// Faults is keyed by "<kind>@<path>": R (resolver), T (thunk), RT
	// (ResolveType), IT (IsTypeOf). Immutable during the request.
	Faults map[string]string
	// AllThunk makes every resolver defer its value.
	AllThunk bool
	// Gates: whether callbacks publish gates/notes to the simulator.
	Gates bool
	// ForeignEnum makes resolvers hand back enum values in another Go type than
	// the one the enum was declared with (int64 for int, a named string type,
	// float32 for float64) - as a data source would.
	ForeignEnum bool
	// RootTok is the expected root token, Vars the variables as supplied.
	RootTok Tok

	mu      sync.Mutex
	Log     []string          // R+path R-path T+path T-path RT:path IT:path
	Fired   map[string]int    // fault kind -> times it actually fired
	Seen    map[string]int    // resolver invocations per response path
	Bad     []string          // parameter-accuracy violations found locally (C20)
	FiredAt []string          // "<kind>@<path>" of every fault that fired, in order
	Types   map[string]string // declared return type of every resolved field position
	TypeAt  map[string]string // runtime object type of every object position that had a field resolved
	ArgLog  map[string]string
	Check   func(rc *ReqCtx, p *graphql.ResolveParams, path string) // optional extra check (C20)
	// CheckInfo judges the info handed to type resolvers, isTypeOf functions
	// and FieldResolver sources (C20)
	CheckInfo func(rc *ReqCtx, who, path string, info graphql.ResolveInfo)
	Ext       *ExtRun                  // when set, resolver events are mirrored into the extension log
	Cancel    func()                   // cancels the request context (used by the cancel_ctx fault)
	PathArrs  map[string][]interface{} // the path arrays handed out at call time (C20: they must not change afterwards)
}

type reqKey struct{}

// WithReq attaches rc to ctx.
func WithReq(ctx context.Context, rc *ReqCtx) context.Context {
	return context.WithValue(ctx, reqKey{}, rc)
}

// ReqOf returns the request context carried by ctx, or nil.
func ReqOf(ctx context.Context) *ReqCtx {
	if ctx == nil {
		return nil
	}
	rc, _ := ctx.Value(reqKey{}).(*ReqCtx)
	return rc
}

func (rc *ReqCtx) logf(s string) {
	rc.mu.Lock()
	rc.Log = append(rc.Log, s)
	rc.mu.Unlock()
}

func (rc *ReqCtx) fire(kind string, path ...string) {
	rc.mu.Lock()
	if rc.Fired == nil {
		rc.Fired = map[string]int{}
	}
	rc.Fired[kind]++
	if len(path) > 0 {
		rc.FiredAt = append(rc.FiredAt, kind+"@"+path[0])
	}
	rc.mu.Unlock()
}

func (rc *ReqCtx) bad(s string) {
	rc.mu.Lock()
	rc.Bad = append(rc.Bad, s)
	rc.mu.Unlock()
}

// Snapshot returns copies of the recorded state.
func (rc *ReqCtx) Snapshot() (log []string, fired map[string]int, seen map[string]int, bad []string) {
	rc.mu.Lock()
	defer rc.mu.Unlock()
	log = append([]string(nil), rc.Log...)
	fired = map[string]int{}
	for k, v := range rc.Fired {
		fired[k] = v
	}
	seen = map[string]int{}
	for k, v := range rc.Seen {
		seen[k] = v
	}
	bad = append([]string(nil), rc.Bad...)
	return
}

// PathString renders a response path as dot separated keys.
func PathString(p *graphql.ResponsePath) string {
	if p == nil {
		return ""
	}
	arr := p.AsArray()
	parts := make([]string, len(arr))
	for i, k := range arr {
		parts[i] = fmt.Sprint(k)
	}
	return strings.Join(parts, ".")
}

// World is one instance of the simulated schema.
type World struct {
	ID     string // stamped into string leaves, distinguishes same-shape schemas
	Schema graphql.Schema
	Obj    map[string]*graphql.Object
	Node   *graphql.Interface
	U      *graphql.Union
	Solo   *graphql.Union // an abstract type with exactly one possible type
	FC     *graphql.Union // First | Catch: no ResolveType, and Catch's IsTypeOf also accepts what First accepts
	Kind   *graphql.Enum
	Stamp  *graphql.Scalar
	// SubSource is returned by the Subscribe resolver of Subscription.events
	// (set per run by the subscription scenarios).
	SubSource func(p graphql.ResolveParams) (interface{}, error)
	// possible concrete types per abstract type name, in declaration order
	Possible map[string][]string
	// PanicLiteral makes the custom scalar's ParseLiteral panic on the literal "PANIC".
	PanicLiteral bool
	// GateScalars makes the custom scalar's ParseValue a scheduling point.
	GateScalars bool
	// NoCtx counts callbacks that were invoked without the request's context.
	NoCtx atomic.Int64
	// WithD: the schema's explicit type list includes D, an implementer of Node
	// that no field references (see Retyped).
	WithD bool
	cfg   graphql.SchemaConfig
	dyn   interface{} // source of Query.plainDyn: a struct of a type made for this world
}

// foreignStr is a named string type (an enum value as a data source's own type).
type foreignStr string

// dynSeq makes every world's dynamic struct type a type no earlier run has seen.
var dynSeq atomic.Int64

// newDynSource returns a value of a struct type created for this world alone
// (reflect.StructOf with a uniquely named padding field): whatever a library
// caches per Go type is cold for it, in every run of a process.
func newDynSource() interface{} {
	t := reflect.StructOf([]reflect.StructField{
		{Name: "Name", Type: reflect.TypeOf("")},
		{Name: "N", Type: reflect.TypeOf(0)},
		{Name: "Tag", Type: reflect.TypeOf("")},
		{Name: fmt.Sprintf("Pad%d", dynSeq.Add(1)), Type: reflect.TypeOf(false)},
	})
	v := reflect.New(t).Elem()
	v.Field(0).SetString("dyn-name")
	v.Field(1).SetInt(6)
	v.Field(2).SetString("dyn-tag")
	return v.Interface()
}

// internal enum values are deliberately not the names
var kindValues = []interface{}{1, "b", 3.5}
var kindNames = []string{"ALPHA", "BETA", "GAMMA"}

func hash64(parts ...string) uint64 {
	h := uint64(0xcbf29ce484222325)
	for _, s := range parts {
		for i := 0; i < len(s); i++ {
			h = (h ^ uint64(s[i])) * 0x100000001b3
		}
		h = (h ^ 0xff) * 0x100000001b3
	}
	return h
}

func argsJSON(args map[string]interface{}) string {
	if len(args) == 0 {
		return ""
	}
	b, err := json.Marshal(normalizeForJSON(args))
	if err != nil {
		return "!" + err.Error()
	}
	return string(b)
}

// normalizeForJSON makes arbitrary coerced argument values marshalable and
// deterministic (map[interface{}]... never occurs; NaN guarded).
func normalizeForJSON(v interface{}) interface{} {
	switch x := v.(type) {
	case map[string]interface{}:
		out := make(map[string]interface{}, len(x))
		for k, e := range x {
			out[k] = normalizeForJSON(e)
		}
		return out
	case []interface{}:
		out := make([]interface{}, len(x))
		for i, e := range x {
			out[i] = normalizeForJSON(e)
		}
		return out
	case float64:
		if math.IsNaN(x) || math.IsInf(x, 0) {
			return fmt.Sprint(x)
		}
		return x
	case StampV:
		return "stamp<" + x.S + ">"
	case nil, string, int, bool:
		return x
	default:
		return fmt.Sprintf("%T:%v", x, x)
	}
}

// QueryOnlyWorld makes NewWorld build a schema without mutation and
// subscription roots (set and reset around NewWorld by the caller).
var QueryOnlyWorld bool

var errSharedFailure = errors.New("shared failure value")

// WorldBOnlyField gives world "B" a root field (onlyB) that world "A" lacks, so
// that a document can be valid for one schema and invalid for the other.
var WorldBOnlyField bool

// NewWorld builds a fresh, cold schema.
func NewWorld(id string, exts ...graphql.Extension) *World {
	w := &World{ID: id, Obj: map[string]*graphql.Object{}, Possible: map[string][]string{}, dyn: newDynSource()}

	w.Kind = graphql.NewEnum(graphql.EnumConfig{
		Name: "Kind",
		Values: graphql.EnumValueConfigMap{
			"ALPHA": &graphql.EnumValueConfig{Value: kindValues[0], DeprecationReason: "use BETA"},
			"BETA":  &graphql.EnumValueConfig{Value: kindValues[1]},
			"GAMMA": &graphql.EnumValueConfig{Value: kindValues[2]},
		},
	})
	w.Stamp = graphql.NewScalar(graphql.ScalarConfig{
		Name: "Stamp",
		Serialize: func(v interface{}) interface{} {
			switch s := v.(type) {
			case StampV:
				switch s.Mode {
				case FSerNil:
					return nil
				case FSerPanic:
					panic(errors.New("stamp serialize panic"))
				}
				return "stamp<" + s.S + ">"
			case *StampV:
				if s == nil {
					return nil
				}
				return "stamp<" + s.S + ">"
			}
			return nil
		},
		ParseValue: func(v interface{}) interface{} {
			// variable coercion of a custom scalar is user code that may block
			if cs := Cur(); cs != nil && w.GateScalars {
				cs.Gate("", "scalar:parsevalue", "")
			}
			if s, ok := v.(string); ok {
				return StampV{S: s}
			}
			return nil
		},
		ParseLiteral: func(v ast.Value) interface{} {
			if s, ok := v.(*ast.StringValue); ok {
				if w.PanicLiteral && s.Value == "PANIC" {
					// user code that fails while the library is planning lazily
					panic(errors.New("stamp literal panic"))
				}
				return StampV{S: s.Value}
			}
			return nil
		},
	})

	filter := graphql.NewInputObject(graphql.InputObjectConfig{
		Name: "Filter",
		Fields: graphql.InputObjectConfigFieldMapThunk(func() graphql.InputObjectConfigFieldMap {
			return graphql.InputObjectConfigFieldMap{
				"min":  &graphql.InputObjectFieldConfig{Type: graphql.Int, DefaultValue: 1},
				"tags": &graphql.InputObjectFieldConfig{Type: graphql.NewList(graphql.NewNonNull(graphql.String))},
				"kind": &graphql.InputObjectFieldConfig{Type: w.Kind, DefaultValue: kindValues[0]},
				"st":   &graphql.InputObjectFieldConfig{Type: w.Stamp},
			}
		}),
	})

	w.Node = graphql.NewInterface(graphql.InterfaceConfig{
		Name: "Node",
		Fields: graphql.FieldsThunk(func() graphql.Fields {
			return graphql.Fields{
				"id":   &graphql.Field{Type: graphql.NewNonNull(graphql.ID)},
				"name": &graphql.Field{Type: graphql.String, Args: graphql.FieldConfigArgument{"up": &graphql.ArgumentConfig{Type: graphql.Boolean}}},
				"kind": &graphql.Field{Type: w.Kind},
				"peer": &graphql.Field{Type: w.Node, Args: graphql.FieldConfigArgument{"as": &graphql.ArgumentConfig{Type: graphql.String}}},
				"meta": &graphql.Field{Type: w.Obj["Leafy"]},
			}
		}),
		ResolveType: func(p graphql.ResolveTypeParams) *graphql.Object { return w.resolveType(p, "Node") },
	})

	mkObj := func(name string, ifaces []*graphql.Interface, isTypeOf bool, fields func() graphql.Fields) *graphql.Object {
		cfg := graphql.ObjectConfig{
			Name: name,
			Fields: graphql.FieldsThunk(func() graphql.Fields {
				fs := fields()
				for fname, f := range fs {
					if f.Resolve == nil && fname != "plainRoot" {
						f.Resolve = w.resolver(name, fname)
					}
				}
				return fs
			}),
		}
		if len(ifaces) > 0 {
			cfg.Interfaces = ifaces
		}
		if isTypeOf {
			cfg.IsTypeOf = func(p graphql.IsTypeOfParams) bool { return w.isTypeOf(p, name) }
		}
		o := graphql.NewObject(cfg)
		w.Obj[name] = o
		return o
	}
	nodeFields := func() graphql.Fields {
		return graphql.Fields{
			"id":   &graphql.Field{Type: graphql.NewNonNull(graphql.ID)},
			"name": &graphql.Field{Type: graphql.String, Args: graphql.FieldConfigArgument{"up": &graphql.ArgumentConfig{Type: graphql.Boolean}}},
			"kind": &graphql.Field{Type: w.Kind},
			"peer": &graphql.Field{Type: w.Node, Args: graphql.FieldConfigArgument{"as": &graphql.ArgumentConfig{Type: graphql.String}}},
			"meta": &graphql.Field{Type: w.Obj["Leafy"]},
		}
	}
	nodeIf := []*graphql.Interface{w.Node}

	var item, leafy, deep *graphql.Object
	mkObj("A", nodeIf, true, func() graphql.Fields {
		fs := nodeFields()
		fs["aOnly"] = &graphql.Field{Type: graphql.Int, Args: graphql.FieldConfigArgument{"st": &graphql.ArgumentConfig{Type: w.Stamp}}}
		fs["items"] = &graphql.Field{Type: graphql.NewList(graphql.NewNonNull(item)), Args: graphql.FieldConfigArgument{"n": &graphql.ArgumentConfig{Type: graphql.Int, DefaultValue: 2}}}
		fs["u"] = &graphql.Field{Type: w.U, Args: graphql.FieldConfigArgument{"as": &graphql.ArgumentConfig{Type: graphql.String}}}
		fs["leafy"] = &graphql.Field{Type: leafy}
		fs["solo"] = &graphql.Field{Type: w.Solo}
		return fs
	})
	mkObj("B", nodeIf, true, func() graphql.Fields {
		fs := nodeFields()
		fs["bOnly"] = &graphql.Field{Type: graphql.String}
		fs["nodes"] = &graphql.Field{Type: graphql.NewList(w.Node), Args: graphql.FieldConfigArgument{"n": &graphql.ArgumentConfig{Type: graphql.Int, DefaultValue: 2}}}
		fs["nn"] = &graphql.Field{Type: graphql.NewNonNull(leafy)}
		fs["u"] = &graphql.Field{Type: w.U, Args: graphql.FieldConfigArgument{"as": &graphql.ArgumentConfig{Type: graphql.String}}}
		return fs
	})
	mkObj("C", nodeIf, true, func() graphql.Fields {
		fs := nodeFields()
		// covariant narrowing of the interface field: makes NewSchema consult (and
		// therefore create) the schema's possible-type table at construction
		fs["peer"] = &graphql.Field{Type: w.Obj["C"], Args: graphql.FieldConfigArgument{"as": &graphql.ArgumentConfig{Type: graphql.String}}}
		// the same interface field with another argument default than A and B
		fs["name"] = &graphql.Field{Type: graphql.String, Args: graphql.FieldConfigArgument{"up": &graphql.ArgumentConfig{Type: graphql.Boolean, DefaultValue: true}}}
		fs["cOnly"] = &graphql.Field{Type: graphql.Float}
		fs["matrix"] = &graphql.Field{Type: graphql.NewList(graphql.NewList(graphql.NewNonNull(graphql.Int)))}
		fs["deep"] = &graphql.Field{Type: deep}
		fs["solo"] = &graphql.Field{Type: w.Solo}
		return fs
	})
	// D implements Node but no field refers to it: it belongs to a schema only
	// through the explicit type list (World.Retyped), and only then is it a
	// possible type of Node
	mkObj("D", nodeIf, true, func() graphql.Fields {
		fs := nodeFields()
		fs["dOnly"] = &graphql.Field{Type: graphql.String}
		return fs
	})
	w.U = graphql.NewUnion(graphql.UnionConfig{
		Name:  "U",
		Types: []*graphql.Object{w.Obj["A"], w.Obj["B"]},
		// no ResolveType: the library's default IsTypeOf scan is used
	})
	w.Solo = graphql.NewUnion(graphql.UnionConfig{
		Name:  "Solo",
		Types: []*graphql.Object{w.Obj["B"]},
	})
	// FC = First | Catch without a type resolver: the library asks the IsTypeOf
	// functions in declaration order and takes the first that accepts. Catch is a
	// catch-all that also accepts First values, so the answer depends on that
	// order (and on nothing else: no history, no earlier value).
	fcFields := func() graphql.Fields {
		return graphql.Fields{
			"id":    &graphql.Field{Type: graphql.NewNonNull(graphql.ID)},
			"title": &graphql.Field{Type: graphql.String},
			"kind":  &graphql.Field{Type: w.Kind},
		}
	}
	mkObj("First", nil, true, fcFields)
	mkObj("Catch", nil, true, fcFields)
	w.FC = graphql.NewUnion(graphql.UnionConfig{
		Name:  "FC",
		Types: []*graphql.Object{w.Obj["First"], w.Obj["Catch"]},
	})
	w.Possible["FC"] = []string{"First", "Catch"}
	w.Possible["Solo"] = []string{"B"}
	w.Possible["Node"] = []string{"A", "B", "C"}
	w.Possible["U"] = []string{"A", "B"}

	item = mkObj("Item", nil, false, func() graphql.Fields {
		return graphql.Fields{
			"n":     &graphql.Field{Type: graphql.NewNonNull(graphql.Int)},
			"label": &graphql.Field{Type: graphql.String},
			"owner": &graphql.Field{Type: w.Node, Args: graphql.FieldConfigArgument{"as": &graphql.ArgumentConfig{Type: graphql.String}}},
			"stamp": &graphql.Field{Type: w.Stamp},
			"kind":  &graphql.Field{Type: graphql.NewNonNull(w.Kind)},
		}
	})
	leafy = mkObj("Leafy", nil, false, func() graphql.Fields {
		return graphql.Fields{
			"s":    &graphql.Field{Type: graphql.String},
			"i":    &graphql.Field{Type: graphql.Int},
			"f":    &graphql.Field{Type: graphql.Float},
			"b":    &graphql.Field{Type: graphql.Boolean},
			"id":   &graphql.Field{Type: graphql.ID},
			"e":    &graphql.Field{Type: w.Kind},
			"st":   &graphql.Field{Type: w.Stamp},
			"sNN":  &graphql.Field{Type: graphql.NewNonNull(graphql.String)},
			"iNN":  &graphql.Field{Type: graphql.NewNonNull(graphql.Int)},
			"li":   &graphql.Field{Type: graphql.NewList(graphql.Int)},
			"liNN": &graphql.Field{Type: graphql.NewNonNull(graphql.NewList(graphql.NewNonNull(graphql.Int)))},
			"le":   &graphql.Field{Type: graphql.NewList(w.Kind)},
			"lst":  &graphql.Field{Type: graphql.NewList(w.Stamp)},
			"sub":  &graphql.Field{Type: leafy},
		}
	})
	// Deep is the nullability lattice: every combination of nullable / non-null
	// object and list positions, recursively.
	deep = mkObj("Deep", nil, false, func() graphql.Fields {
		return graphql.Fields{
			"v":      &graphql.Field{Type: graphql.String},
			"vNN":    &graphql.Field{Type: graphql.NewNonNull(graphql.String)},
			"d":      &graphql.Field{Type: deep},
			"dNN":    &graphql.Field{Type: graphql.NewNonNull(deep)},
			"l":      &graphql.Field{Type: graphql.NewList(deep)},
			"lNN":    &graphql.Field{Type: graphql.NewNonNull(graphql.NewList(deep))},
			"lOfNN":  &graphql.Field{Type: graphql.NewList(graphql.NewNonNull(deep))},
			"lNNNN":  &graphql.Field{Type: graphql.NewNonNull(graphql.NewList(graphql.NewNonNull(deep)))},
			"ll":     &graphql.Field{Type: graphql.NewList(graphql.NewList(graphql.NewNonNull(deep)))},
			"node":   &graphql.Field{Type: w.Node, Args: graphql.FieldConfigArgument{"as": &graphql.ArgumentConfig{Type: graphql.String}}},
			"nodeNN": &graphql.Field{Type: graphql.NewNonNull(w.Node), Args: graphql.FieldConfigArgument{"as": &graphql.ArgumentConfig{Type: graphql.String}}},
		}
	})

	// Plain has no resolvers: its fields go through graphql.DefaultResolveFn
	// (struct fields by name or tag, pointers, maps, map entries that are funcs).
	plain := graphql.NewObject(graphql.ObjectConfig{
		Name: "Plain",
		Fields: graphql.Fields{
			"name": &graphql.Field{Type: graphql.String},
			"n":    &graphql.Field{Type: graphql.Int},
			"tag":  &graphql.Field{Type: graphql.String},
			// resolver-less fields with arguments: only a source implementing
			// graphql.FieldResolver sees them
			"echoArg": &graphql.Field{Type: graphql.Int, Args: graphql.FieldConfigArgument{"x": &graphql.ArgumentConfig{Type: graphql.Int, DefaultValue: 1}, "y": &graphql.ArgumentConfig{Type: graphql.Int}}},
			// resolver-less fields of abstract / isTypeOf-guarded types: the type
			// callbacks are reached with the info of a default-resolved field
			"node":  &graphql.Field{Type: w.Node},
			"objA":  &graphql.Field{Type: w.Obj["A"]},
			"nodes": &graphql.Field{Type: graphql.NewList(w.Node)},
			"un":    &graphql.Field{Type: w.U},
		},
	})
	w.Obj["Plain"] = plain
	echoArgs := graphql.FieldConfigArgument{
		"s":  &graphql.ArgumentConfig{Type: graphql.String},
		"i":  &graphql.ArgumentConfig{Type: graphql.Int, DefaultValue: 7},
		"fl": &graphql.ArgumentConfig{Type: graphql.Float},
		"b":  &graphql.ArgumentConfig{Type: graphql.Boolean},
		"e":  &graphql.ArgumentConfig{Type: w.Kind},
		"f":  &graphql.ArgumentConfig{Type: filter},
		"st": &graphql.ArgumentConfig{Type: w.Stamp},
		"l":  &graphql.ArgumentConfig{Type: graphql.NewList(graphql.Int)},
		"id": &graphql.ArgumentConfig{Type: graphql.ID},
	}
	echo2Args := graphql.FieldConfigArgument{}
	for k, a := range echoArgs {
		echo2Args[k] = a
	}
	echo2Args["ks"] = &graphql.ArgumentConfig{Type: graphql.NewList(w.Kind)}
	echo2Args["fd"] = &graphql.ArgumentConfig{Type: filter, DefaultValue: map[string]interface{}{"min": 3, "tags": []interface{}{"d"}, "st": "dflt"}}
	rootFields := func() graphql.Fields {
		return graphql.Fields{
			"node":     &graphql.Field{Type: w.Node, Args: graphql.FieldConfigArgument{"as": &graphql.ArgumentConfig{Type: graphql.String}, "id": &graphql.ArgumentConfig{Type: graphql.ID}}},
			"nodes":    &graphql.Field{Type: graphql.NewList(w.Node), Args: graphql.FieldConfigArgument{"n": &graphql.ArgumentConfig{Type: graphql.Int, DefaultValue: 2}, "as": &graphql.ArgumentConfig{Type: graphql.String}}},
			"u":        &graphql.Field{Type: w.U, Args: graphql.FieldConfigArgument{"as": &graphql.ArgumentConfig{Type: graphql.String}}},
			"solo":     &graphql.Field{Type: w.Solo},
			"fc":       &graphql.Field{Type: w.FC, Args: graphql.FieldConfigArgument{"as": &graphql.ArgumentConfig{Type: graphql.String}}},
			"fcs":      &graphql.Field{Type: graphql.NewList(w.FC), Args: graphql.FieldConfigArgument{"n": &graphql.ArgumentConfig{Type: graphql.Int, DefaultValue: 2}, "as": &graphql.ArgumentConfig{Type: graphql.String}}},
			"a":        &graphql.Field{Type: w.Obj["A"]},
			"b":        &graphql.Field{Type: w.Obj["B"]},
			"c":        &graphql.Field{Type: w.Obj["C"]},
			"leafy":    &graphql.Field{Type: leafy},
			"leafyNN":  &graphql.Field{Type: graphql.NewNonNull(leafy)},
			"deep":     &graphql.Field{Type: deep},
			"deepNN":   &graphql.Field{Type: graphql.NewNonNull(deep)},
			"echo":     &graphql.Field{Type: graphql.String, Args: echoArgs},
			"echo2":    &graphql.Field{Type: graphql.String, Args: echo2Args},
			"plainDyn": &graphql.Field{Type: plain, Resolve: func(p graphql.ResolveParams) (interface{}, error) { return w.dyn, nil }},
			"plainA":   &graphql.Field{Type: plain, Resolve: func(p graphql.ResolveParams) (interface{}, error) { return plainRecA(), nil }},
			"plainB":   &graphql.Field{Type: plain, Resolve: func(p graphql.ResolveParams) (interface{}, error) { return plainRecB(), nil }},
			"plainPtr": &graphql.Field{Type: plain, Resolve: func(p graphql.ResolveParams) (interface{}, error) { return plainRecPtr(), nil }},
			"plainMap": &graphql.Field{Type: plain, Resolve: func(p graphql.ResolveParams) (interface{}, error) {
				m := map[string]interface{}{"name": "map-name", "n": 3, "tag": func() interface{} { return "map-tag-fn" }}
				if rc := ReqOf(p.Context); rc != nil {
					path := PathString(p.Info.Path)
					m["node"] = Tok{T: "B", P: path + ".node", R: rc.Req}
					m["objA"] = Tok{T: "A", P: path + ".objA", R: rc.Req}
					m["nodes"] = []interface{}{Tok{T: "A", P: path + ".nodes.0", R: rc.Req}, Tok{T: "C", P: path + ".nodes.1", R: rc.Req}}
					m["un"] = Tok{T: "A", P: path + ".un", R: rc.Req}
				}
				return m, nil
			}},
			"plainFR":    &graphql.Field{Type: plain, Resolve: func(p graphql.ResolveParams) (interface{}, error) { return plainFieldResolver{}, nil }},
			"plainFRPtr": &graphql.Field{Type: plain, Resolve: func(p graphql.ResolveParams) (interface{}, error) { return &plainPtrResolver{tag: "ptr"}, nil }},
			// no resolver at all: read from the request's root value by the default resolver
			"plainRoot":   &graphql.Field{Type: plain},
			"plainTagged": &graphql.Field{Type: plain, Resolve: func(p graphql.ResolveParams) (interface{}, error) { return plainRecTagged(), nil }},
			"x1":          &graphql.Field{Type: graphql.String},
			"x2":          &graphql.Field{Type: graphql.String},
			"x3":          &graphql.Field{Type: graphql.Int},
			"x4":          &graphql.Field{Type: graphql.String},
			"x5":          &graphql.Field{Type: graphql.String},
			"x6":          &graphql.Field{Type: graphql.String},
			"x7":          &graphql.Field{Type: graphql.String},
			"x8":          &graphql.Field{Type: graphql.String},
		}
	}
	if WorldBOnlyField && id == "B" {
		// a schema of a different shape: this root field exists in world B only
		inner := rootFields
		rootFields = func() graphql.Fields {
			fs := inner()
			fs["onlyB"] = &graphql.Field{Type: graphql.String}
			return fs
		}
	}
	query := mkObj("Query", nil, false, rootFields)
	mutation := mkObj("Mutation", nil, false, func() graphql.Fields {
		fs := graphql.Fields{}
		for _, n := range []string{"m1", "m2", "m3", "m4", "m5", "m6"} {
			fs[n] = &graphql.Field{Type: w.Obj["B"], Args: graphql.FieldConfigArgument{"v": &graphql.ArgumentConfig{Type: graphql.Int}}}
		}
		fs["s1"] = &graphql.Field{Type: graphql.String, Args: graphql.FieldConfigArgument{"v": &graphql.ArgumentConfig{Type: graphql.Int}}}
		fs["s2"] = &graphql.Field{Type: graphql.String, Args: graphql.FieldConfigArgument{"v": &graphql.ArgumentConfig{Type: graphql.Int}}}
		fs["deep"] = &graphql.Field{Type: deep}
		fs["node"] = &graphql.Field{Type: w.Node, Args: graphql.FieldConfigArgument{"as": &graphql.ArgumentConfig{Type: graphql.String}}}
		return fs
	})
	subscription := graphql.NewObject(graphql.ObjectConfig{
		Name: "Subscription",
		Fields: graphql.FieldsThunk(func() graphql.Fields {
			return graphql.Fields{
				"events": &graphql.Field{
					Type:    w.Obj["B"],
					Args:    graphql.FieldConfigArgument{"n": &graphql.ArgumentConfig{Type: graphql.Int}, "k": &graphql.ArgumentConfig{Type: w.Kind}, "st": &graphql.ArgumentConfig{Type: w.Stamp}},
					Resolve: w.resolver("Subscription", "events"),
					Subscribe: func(p graphql.ResolveParams) (interface{}, error) {
						if w.SubSource == nil {
							return nil, errors.New("no source configured")
						}
						return w.SubSource(p)
					},
				},
				"ticks": &graphql.Field{
					Type:    graphql.NewNonNull(leafy),
					Resolve: w.resolver("Subscription", "ticks"),
					Subscribe: func(p graphql.ResolveParams) (interface{}, error) {
						if w.SubSource == nil {
							return nil, errors.New("no source configured")
						}
						return w.SubSource(p)
					},
				},
			}
		}),
	})
	w.Obj["Subscription"] = subscription

	live := graphql.NewDirective(graphql.DirectiveConfig{Name: "live", Locations: []string{graphql.DirectiveLocationSubscription}})
	cfg := graphql.SchemaConfig{
		Query: query, Mutation: mutation, Subscription: subscription,
		Types:      []graphql.Type{w.Obj["A"], w.Obj["B"], w.Obj["C"]},
		Directives: append(append([]*graphql.Directive(nil), graphql.SpecifiedDirectives...), live),
		Extensions: exts,
	}
	if QueryOnlyWorld {
		cfg.Mutation, cfg.Subscription = nil, nil
	}
	schema, err := graphql.NewSchema(cfg)
	if err != nil {
		panic("world: " + err.Error())
	}
	w.Schema = schema
	w.cfg = cfg
	return w
}

// Retyped returns a world around the same root objects, types and callbacks
// whose schema is a new value built with another explicit type list: D, an
// implementer of Node that is reachable through that list only, is added (or
// dropped again). A value resolving to D is a possible type of Node in the one
// schema and an error in the other.
func (w *World) Retyped() *World {
	n := &World{ID: w.ID, Obj: w.Obj, Node: w.Node, U: w.U, Solo: w.Solo, FC: w.FC, dyn: w.dyn, Kind: w.Kind, Stamp: w.Stamp, SubSource: w.SubSource,
		Possible: w.Possible, PanicLiteral: w.PanicLiteral, GateScalars: w.GateScalars, WithD: !w.WithD}
	cfg := w.cfg
	cfg.Types = []graphql.Type{w.Obj["A"], w.Obj["B"], w.Obj["C"]}
	if n.WithD {
		cfg.Types = append(cfg.Types, w.Obj["D"])
	}
	schema, err := graphql.NewSchema(cfg)
	if err != nil {
		panic("world (retyped): " + err.Error())
	}
	n.Schema = schema
	n.cfg = cfg
	return n
}

// ---------------------------------------------------------------------------
// instrumented callbacks

func (w *World) gate(rc *ReqCtx, site, info string) {
	if rc == nil || !rc.Gates {
		return
	}
	if s := Cur(); s != nil {
		s.Gate(rc.Task, site, info)
	}
}

func (w *World) resolver(typeName, fieldName string) graphql.FieldResolveFn {
	coord := typeName + "." + fieldName
	inner := w.resolverInner(coord)
	return func(p graphql.ResolveParams) (v interface{}, err error) {
		rc := ReqOf(p.Context)
		if rc != nil && rc.Ext != nil {
			path := PathString(p.Info.Path)
			rc.Ext.logf("R+:%s", path)
			defer func() {
				if r := recover(); r != nil {
					rc.Ext.logf("R-:%s panic", path)
					panic(r)
				}
				rc.Ext.logf("R-:%s %s %s", path, valKind(v), errInfo(err))
			}()
		}
		return inner(p)
	}
}

func (w *World) resolverInner(coord string) graphql.FieldResolveFn {
	return func(p graphql.ResolveParams) (interface{}, error) {
		rc := ReqOf(p.Context)
		path := PathString(p.Info.Path)
		if rc == nil {
			w.NoCtx.Add(1)
			return w.gen(nil, p.Info.ReturnType, coord, path, p.Args), nil
		}
		rc.mu.Lock()
		if rc.Seen == nil {
			rc.Seen = map[string]int{}
		}
		rc.Seen[path]++
		if rc.Types == nil {
			rc.Types = map[string]string{}
		}
		rc.Types[path] = p.Info.ReturnType.String()
		if rc.TypeAt == nil {
			rc.TypeAt = map[string]string{}
		}
		if p.Info.ParentType != nil {
			rc.TypeAt[parentPath(path)] = p.Info.ParentType.Name()
		}
		rc.Log = append(rc.Log, "R+"+path)
		rc.mu.Unlock()
		if rc.Check != nil {
			rc.Check(rc, &p, path)
			rc.mu.Lock()
			if rc.PathArrs == nil {
				rc.PathArrs = map[string][]interface{}{}
			}
			rc.PathArrs[path] = p.Info.Path.AsArray()
			rc.mu.Unlock()
		}
		w.gate(rc, "resolver:"+coord, path)
		defer rc.logf("R-" + path)

		// subscription events: the payload (root value) tags values and faults
		evTag := ""
		if e, ok := p.Info.RootValue.(Ev); ok {
			evTag = "~ev" + strconv.Itoa(e.N)
		}
		fault := rc.Faults["R@"+path+evTag]
		if fault == "" {
			fault = rc.Faults["R@"+path]
		}
		if fault == "" {
			fault = rc.Faults["R@*"]
		}
		if fault == "" && rc.AllThunk {
			fault = FThunk
		}
		val := func() interface{} { return w.gen(rc, p.Info.ReturnType, coord, path+evTag, p.Args) }
		if fault != "" {
			rc.fire(fault, path)
		}
		if strings.HasPrefix(fault, FErrMsg) {
			return nil, errors.New(fault[len(FErrMsg):])
		}
		switch fault {
		case FForeignErr:
			inner := gqlerrors.NewError("inner failure of another request", nil, "", nil, nil, errors.New("inner cause"))
			fe := gqlerrors.FormatError(inner)
			fe.Path = []interface{}{"inner", "leaf"}
			return nil, fe
		case FGoexit:
			runtime.Goexit()
		case FSentinelErr:
			return nil, sentinelError
		case FSharedErr:
			return nil, errSharedFailure
		case FErr:
			return nil, fmt.Errorf("boom %s", path)
		case FValErr:
			return val(), fmt.Errorf("boom+val %s", path)
		case FPanicErr:
			panic(fmt.Errorf("panic-err %s", path))
		case FPanicStr:
			panic("panic-str " + path)
		case FPanicInt:
			panic(42)
		case FNil:
			return nil, nil
		case FTypedNil:
			if isLeafNamed(p.Info.ReturnType) {
				// a typed nil pointer (not of the leaf's own Go type for strings)
				switch namedOf(p.Info.ReturnType.String()) {
				case "String", "ID":
					return (*int)(nil), nil
				}
				return (*string)(nil), nil
			}
			return (*Tok)(nil), nil
		case FThunk, FThunk2, FThunkErr, FThunkPanic, FThunkNil, FThunkValErr:
			thunk := func() (interface{}, error) {
				rc.logf("T+" + path)
				w.gate(rc, "thunk:"+coord, path)
				defer rc.logf("T-" + path)
				tf := rc.Faults["T@"+path]
				if fault != FThunk && fault != FThunk2 {
					tf = fault
				}
				switch tf {
				case FThunkValErr:
					rc.fire("T:"+FValErr, path)
					return val(), fmt.Errorf("thunk boom+val %s", path)
				case FThunkErr, FErr:
					rc.fire("T:"+FErr, path)
					return nil, fmt.Errorf("thunk boom %s", path)
				case FThunkPanic, FPanicErr:
					rc.fire("T:"+FPanicErr, path)
					panic(fmt.Errorf("thunk panic %s", path))
				case FThunkNil, FNil:
					rc.fire("T:"+FNil, path)
					return nil, nil
				}
				return val(), nil
			}
			if fault == FThunk2 {
				return func() (interface{}, error) { return thunk, nil }, nil
			}
			return thunk, nil
		case FThunkBad:
			return func() int { return 1 }, nil
		case FWrongKind:
			return w.wrongKind(p.Info.ReturnType), nil
		case FNaN:
			return math.NaN(), nil
		case FBigInt:
			return int64(1) << 40, nil
		case FBigIntStr:
			return "9876504321", nil
		case FBadEnum:
			return "no-such-internal-value", nil
		case FNotIter:
			return 12345, nil
		case FSerNil, FSerPanic:
			return StampV{S: path, Mode: fault}, nil
		case FHostile:
			// the value reflects the arguments as received; then the resolver
			// scribbles over the map it was handed (it owns it)
			v := val()
			for k := range p.Args {
				p.Args[k] = "POISON"
			}
			p.Args["__poison"] = rc.Task
			return v, nil
		case FElemPanic:
			v := val()
			if l, ok := v.([]interface{}); ok && len(l) > 1 {
				switch namedOf(p.Info.ReturnType.String()) {
				case "Kind":
					l[1] = []int{1} // unhashable: the enum's value lookup panics
				case "Stamp":
					l[1] = StampV{S: path, Mode: FSerPanic}
				}
			}
			return v, nil
		case FElemThunk:
			v := val()
			if l, ok := v.([]interface{}); ok {
				for i := range l {
					elem := l[i]
					idx := i
					l[i] = func() (interface{}, error) {
						rc.logf("T+" + path + "." + strconv.Itoa(idx))
						defer rc.logf("T-" + path + "." + strconv.Itoa(idx))
						return elem, nil
					}
				}
			}
			return v, nil
		case FCancelCtx:
			if rc.Cancel != nil {
				rc.Cancel()
			}
			return val(), nil
		case FBlockCancel:
			<-p.Context.Done()
			return nil, p.Context.Err()
		case FHostileVars:
			v := val()
			for k := range p.Info.VariableValues {
				p.Info.VariableValues[k] = "POISON" + strconv.Itoa(rc.Req) + rc.Task
			}
			return v, nil
		case FObserveCtx:
			if err := p.Context.Err(); err != nil {
				return nil, err
			}
		}
		return val(), nil
	}
}

func (w *World) wrongKind(t graphql.Output) interface{} {
	switch graphql.GetNullable(t).(type) {
	case *graphql.List:
		return "not-a-list"
	case *graphql.Scalar, *graphql.Enum:
		return struct{ X int }{1}
	}
	return 3.25 // for object positions
}

func (w *World) resolveType(p graphql.ResolveTypeParams, abstract string) *graphql.Object {
	rc := ReqOf(p.Context)
	path := PathString(p.Info.Path)
	if rc == nil {
		w.NoCtx.Add(1)
	}
	if rc != nil {
		rc.checkCompleted("ResolveType", p.Value, path, p.Info)
		rc.logf("RT:" + path)
		w.gate(rc, "rtype:"+abstract, path)
		if f := rc.Faults["RT@"+path]; f != "" {
			rc.fire(f, path)
			switch f {
			case FRTNil:
				return nil
			case FRTWrong:
				return w.Obj["Item"]
			case FRTOther:
				switch abstract {
				case "U":
					return w.Obj["C"] // a Node, not a U
				case "Solo":
					return w.Obj["A"] // a Node and a U, not a Solo
				}
				return w.Obj["Item"]
			case FRTPanic:
				panic(fmt.Errorf("resolveType panic %s", path))
			}
		}
	}
	switch t := p.Value.(type) {
	case Tok:
		return w.Obj[t.T]
	case *Tok:
		if t != nil {
			return w.Obj[t.T]
		}
	}
	return nil
}

func (w *World) isTypeOf(p graphql.IsTypeOfParams, name string) bool {
	rc := ReqOf(p.Context)
	path := PathString(p.Info.Path)
	if rc == nil {
		w.NoCtx.Add(1)
	}
	if rc != nil {
		rc.checkCompleted("IsTypeOf", p.Value, path, p.Info)
		rc.logf("IT:" + name + "@" + path)
		if f := rc.Faults["IT@"+path]; f != "" {
			switch f {
			case FITFalse:
				rc.fire(f, path)
				return false
			case FITPanic:
				rc.fire(f, path)
				panic(fmt.Errorf("isTypeOf panic %s", path))
			}
		}
	}
	accepts := func(t string) bool { return t == name || (name == "Catch" && t == "First") }
	switch t := p.Value.(type) {
	case Tok:
		return accepts(t.T)
	case *Tok:
		return t != nil && accepts(t.T)
	}
	return false
}

// gen derives the value of a position from its declared type, coordinate,
// response path and arguments only.
func (w *World) gen(rc *ReqCtx, t graphql.Type, coord, path string, args map[string]interface{}) interface{} {
	switch tt := t.(type) {
	case *graphql.NonNull:
		return w.gen(rc, tt.OfType, coord, path, args)
	case *graphql.List:
		n := 2
		if v, ok := args["n"].(int); ok && v >= 0 && v <= 6 {
			n = v
		}
		out := make([]interface{}, n)
		for i := range out {
			out[i] = w.gen(rc, tt.OfType, coord, path+"."+strconv.Itoa(i), args)
		}
		return out
	case *graphql.Scalar:
		h := hash64(coord, path)
		switch tt.Name() {
		case "String":
			s := coord + "@" + path + "#" + w.ID
			if a := argsJSON(args); a != "" {
				s += a
			}
			if up, _ := args["up"].(bool); up {
				s = strings.ToUpper(s)
			}
			return s
		case "Int":
			if v, ok := args["v"].(int); ok {
				return v
			}
			return int(h % 1000)
		case "Float":
			return float64(h%1000) + 0.5
		case "Boolean":
			return h%2 == 0
		case "ID":
			if v, ok := args["id"]; ok && v != nil {
				return fmt.Sprint("id:", v)
			}
			return "id:" + path
		case "Stamp":
			return StampV{S: path}
		}
		return nil
	case *graphql.Enum:
		kv := kindValues[hash64(coord, path, "k")%3]
		if rc != nil && rc.ForeignEnum {
			switch x := kv.(type) {
			case int:
				return int64(x)
			case string:
				return foreignStr(x)
			case float64:
				return float32(x)
			}
		}
		return kv
	case *graphql.Object:
		r := 0
		if rc != nil {
			r = rc.Req
		}
		return Tok{T: tt.Name(), P: path, R: r}
	case *graphql.Interface, *graphql.Union:
		names := w.Possible[tt.Name()]
		pick := ""
		if as, ok := args["as"].(string); ok && as != "" {
			pick = as
		} else {
			var variant uint64
			if rc != nil {
				variant = rc.Variant
			}
			pick = names[(hash64(path)^variant)%uint64(len(names))]
		}
		r := 0
		if rc != nil {
			r = rc.Req
		}
		return Tok{T: pick, P: path, R: r}
	}
	return nil
}

// MarshalResult renders a result as canonical JSON.
func MarshalResult(r *graphql.Result) string {
	if r == nil {
		return "<nil result>"
	}
	b, err := json.Marshal(r)
	if err != nil {
		return "!marshal: " + err.Error()
	}
	return string(b)
}

// SortedKeys returns the keys of m sorted.
func SortedKeys[V any](m map[string]V) []string {
	ks := make([]string, 0, len(m))
	for k := range m {
		ks = append(ks, k)
	}
	sort.Strings(ks)
	return ks
}

func isLeafNamed(t graphql.Type) bool {
	switch graphql.GetNamed(t).(type) {
	case *graphql.Scalar, *graphql.Enum:
		return true
	}
	return false
}

// checkCompleted verifies what a type resolver / isTypeOf function is told: the
// value being completed is the token produced at (or, under a list, below) the
// field's response path by this execution, and the info is the field's.
func (rc *ReqCtx) checkCompleted(who string, value interface{}, path string, info graphql.ResolveInfo) {
	if rc.CheckInfo != nil {
		rc.CheckInfo(rc, who, path, info)
	}
	if rc.Check == nil {
		return
	}
	var tok Tok
	switch v := value.(type) {
	case Tok:
		tok = v
	case *Tok:
		if v != nil {
			tok = *v
		}
	default:
		return // a fault-injected non-token value
	}
	base, _, _ := strings.Cut(tok.P, "~")
	if base != path && !strings.HasPrefix(tok.P, path+".") && !strings.HasPrefix(tok.P, path+"~") {
		rc.bad(fmt.Sprintf("%s: %s was handed the value produced at %q", path, who, tok.P))
	}
	if tok.R != rc.Req {
		rc.bad(fmt.Sprintf("%s: %s was handed a value of execution %d, this is execution %d", path, who, tok.R, rc.Req))
	}
	if info.FieldName == "" || len(info.FieldASTs) == 0 || lastSegOf(path) != respKey(info.FieldASTs[0]) {
		rc.bad(fmt.Sprintf("%s: %s received an info that does not describe the field (name %q)", path, who, info.FieldName))
	}
}

func lastSegOf(p string) string {
	if i := strings.LastIndexByte(p, '.'); i >= 0 {
		return p[i+1:]
	}
	return p
}

func respKey(f *ast.Field) string {
	if f == nil {
		return ""
	}
	if f.Alias != nil && f.Alias.Value != "" {
		return f.Alias.Value
	}
	if f.Name != nil {
		return f.Name.Value
	}
	return ""
}

// Two distinct struct types that print identically ("sim.rec") but lay their
// fields out differently, a pointer source and a tag-driven source.
func plainRecA() interface{} {
	type rec struct {
		Name string
		N    int
		Tag  string
	}
	return rec{Name: "a-name", N: 1, Tag: "a-tag"}
}

func plainRecB() interface{} {
	type rec struct {
		Tag  string
		N    int
		Name string
	}
	return rec{Tag: "b-tag", N: 2, Name: "b-name"}
}

func plainRecPtr() interface{} {
	type rec struct {
		N    int
		Name string
		Tag  string
	}
	return &rec{N: 4, Name: "ptr-name", Tag: "ptr-tag"}
}

func plainRecTagged() interface{} {
	type rec struct {
		A string `json:"name"`
		B int    `graphql:"n"`
		C string `json:"tag,omitempty"`
	}
	return rec{A: "tagged-name", B: 5, C: "tagged-tag"}
}

// NewWorldPossible returns the abstract-type table of the simulated schema.
func NewWorldPossible() map[string][]string {
	return map[string][]string{"Node": {"A", "B", "C"}, "U": {"A", "B"}, "Solo": {"B"}, "FC": {"First", "Catch"}}
}

// plainFieldResolver is a source that resolves its own fields (graphql.FieldResolver)
// and, like any resolver may, scribbles over the argument map it was handed.
type plainFieldResolver struct{}

func (plainFieldResolver) Resolve(p graphql.ResolveParams) (interface{}, error) {
	if rc := ReqOf(p.Context); rc != nil && rc.CheckInfo != nil {
		rc.CheckInfo(rc, "FieldResolver source", PathString(p.Info.Path), p.Info)
	}
	switch p.Info.FieldName {
	case "echoArg":
		x, _ := p.Args["x"].(int)
		y, _ := p.Args["y"].(int)
		p.Args["x"] = x + 100
		p.Args["y"] = y + 100
		p.Args["seen"] = true
		return x*1000 + y, nil
	case "name":
		return "fr-name", nil
	case "n":
		return 9, nil
	}
	return "fr-tag", nil
}

// plainPtrResolver implements graphql.FieldResolver on its pointer type only.
type plainPtrResolver struct{ tag string }

func (r *plainPtrResolver) Resolve(p graphql.ResolveParams) (interface{}, error) {
	if rc := ReqOf(p.Context); rc != nil && rc.CheckInfo != nil {
		rc.CheckInfo(rc, "FieldResolver source", PathString(p.Info.Path), p.Info)
	}
	switch p.Info.FieldName {
	case "name":
		return r.tag + "-name", nil
	case "n":
		return 11, nil
	case "echoArg":
		x, _ := p.Args["x"].(int)
		return x, nil
	}
	return r.tag + "-tag", nil
}
