package sim

import (
	"time"
	"context"
	"encoding/json"
	"errors"
	"fmt"
	"strconv"
	"strings"

	"github.com/graphql-go/graphql"
)

// C15 — a subscription delivers one correct result per source event, then closes.
//
// Tasks: producer (sends events on the source channel, closes it), the library's
// forwarding goroutine and per-event executor goroutines (real code, gated),
// consumer (receives results: prompt / slow / stops), and the cancellation of
// the request context as an environment action.

type c15Req struct {
	Name  string
	Query string
	Op    string
	Kind  string // ok | syntax | validation | unknown-op
	Root  string // root field response key
	Vars  map[string]interface{}
}

var c15Reqs = []c15Req{
	{"events", `subscription { events { id name nn { s sNN } } }`, "", "ok", "events", nil},
	{"events-abstract", `subscription S { events(n:1) { id nodes(n:2) { id ... on A { aOnly } } u { ... on B { bOnly } } } }`, "S", "ok", "events", nil},
	{"ticks", `subscription { ticks { s sNN i } }`, "", "ok", "ticks", nil},
	{"alias", `subscription { e: events { id } }`, "", "ok", "e", nil},
	// the root field comes from a fragment that is spread twice, the earlier
	// spread being switched off (by a literal, by a variable), or from a later
	// occurrence after a switched-off one
	{"frag-twice-skip", `subscription { ...F @skip(if:true) ...F } fragment F on Subscription { events { id name } }`, "", "ok", "events", nil},
	{"frag-twice-include-var", `subscription($on:Boolean!){ ...F @include(if:$on) ...F } fragment F on Subscription { events { id kind } }`, "", "ok", "events", map[string]interface{}{"on": false}},
	{"inline-off-then-on", `subscription { ... @skip(if:true) { events { id } } ... on Subscription { events { name } } }`, "", "ok", "events", nil},
	{"two-roots-directives", `subscription($s:Boolean!,$i:Boolean!){ ticks @skip(if:$s) @include(if:$i) { s } events { id name } }`, "", "ok", "events", map[string]interface{}{"s": false, "i": false}},
	{"op-directive", `subscription S @live { events { id } }`, "S", "ok", "events", nil},
	{"vars", `subscription($k:Kind, $st:Stamp, $n:Int){ events(k:$k, st:$st, n:$n) { id kind nodes(n:$n) { id } } }`, "", "ok", "events", map[string]interface{}{"k": "BETA", "st": "s1", "n": 1}},
	{"syntax", `subscription { events { id `, "", "syntax", "", nil},
	{"validation", `subscription { events { nope } }`, "", "validation", "", nil},
	{"unknown-op", `subscription A { events { id } }`, "B", "unknown-op", "", nil},
	{"unknown-op-anonymous", `subscription { events { id } }`, "Nope", "unknown-op", "", nil},
}

// the pool lists the requests that subscribe successfully first
var c15OKReqs = func() int {
	n := 0
	for _, r := range c15Reqs {
		if r.Kind == "ok" {
			n++
		}
	}
	return n
}()

type C15Scn struct {
	Req        int      `json:"req"`
	SubMode    string   `json:"sub_mode"` // chan | err | nil | value | panic_err | panic_str | panic_int | closed
	Events     []int    `json:"events"`   // per event: 0 ok, 1 a nullable field fails, 2 a non-null field fails, 3 a nil payload
	Consumer   string   `json:"consumer"` // prompt | slow | stops
	StopAfter  int      `json:"stop_after"`
	End        string   `json:"end"`         // close | cancel | close+cancel
	CancelStep int      `json:"cancel_step"` // -1: the tape decides (if End contains cancel); k: forced once k steps were taken
	Park       []string `json:"park"`
	Sticky     int      `json:"stickiness"`
	BothReady  bool     `json:"both_ready,omitempty"`
	// SrcBuf > 0: the source is a buffered channel, so events can be waiting in
	// it when the context is cancelled (only in the both-ready mode: the
	// forwarder's select between the source and Done is then two-ready)
	SrcBuf int `json:"src_buf,omitempty"`
	// NoCtx: the caller supplies no context at all (legal); the Subscribe
	// resolver uses the context it is handed, as user code does. Run without
	// the scheduler: the events are waiting in a closed stream.
	NoCtx bool `json:"no_ctx,omitempty"`
}

type c15 struct{}

func init() { Register(c15{}) }

func (c15) ID() string { return "C15" }

var c15SubModes = []string{"err", "nil", "value", "panic_err", "panic_str", "panic_int", "closed", "block_ctx"}

// enumerated part: subscribe-phase outcomes x consumer behaviour x end kind
func (c15) EnumSize(tier string) int {
	return (len(c15Reqs) + len(c15SubModes)) * 3 * 3
}

var c15AllPark = []string{"resolver", "rtype", "plan.exec.start", "plan.exec.send", "plan.caller.select", "sub.fwd.start", "sub.fwd.select", "prod", "cons", "client"}

func (p c15) Gen(seed uint64, enum int, tier string) json.RawMessage {
	s := C15Scn{CancelStep: -1, Sticky: 50, SubMode: "chan"}
	if enum >= 0 {
		s.End = []string{"close", "cancel", "close+cancel"}[enum%3]
		enum /= 3
		s.Consumer = []string{"prompt", "slow", "stops"}[enum%3]
		enum /= 3
		if enum < len(c15Reqs) {
			s.Req = enum
		} else {
			s.Req = 0
			s.SubMode = c15SubModes[enum-len(c15Reqs)]
		}
		s.Events = []int{0, 1, 3, 0}
		s.StopAfter = 1
		s.Park = c15AllPark
		if s.SubMode == "block_ctx" && !strings.Contains(s.End, "cancel") {
			s.End = "close+cancel" // only a cancellation ends the wait
		}
		return mustJSON(s)
	}
	r := NewRNG(seed)
	s.Req = r.Intn(c15OKReqs)
	if r.Chance(4) {
		s.NoCtx = true
		for n := r.Intn(4); n > 0; n-- {
			s.Events = append(s.Events, []int{0, 0, 3}[r.Intn(3)])
		}
		s.Consumer, s.End = "prompt", "close"
		return mustJSON(s)
	}
	if r.Chance(8) {
		// the state in which the forwarder's two selects are two-ready on purpose:
		// events waiting in a buffered source, a consumer that needs several
		// picks per result, and a cancellation placed by the tape while a result
		// is pending (runs of this flavour are marked nondet; the oracles accept
		// either legal branch)
		s.BothReady = true
		s.SrcBuf = 2 + r.Intn(2)
		for n := 3 + r.Intn(3); n > 0; n-- {
			s.Events = append(s.Events, 0)
		}
		s.Consumer = []string{"slow", "slow", "prompt"}[r.Intn(3)]
		s.End = []string{"cancel", "close+cancel"}[r.Intn(2)]
		for _, c := range c15AllPark {
			if r.Chance(80) {
				s.Park = append(s.Park, c)
			}
		}
		s.Sticky = []int{0, 30, 60}[r.Intn(3)]
		return mustJSON(s)
	}
	if r.Chance(12) {
		s.Req = c15OKReqs + r.Intn(len(c15Reqs)-c15OKReqs)
	}
	if r.Chance(12) {
		s.SubMode = c15SubModes[r.Intn(len(c15SubModes))]
	}
	for n := r.Intn(6); n > 0; n-- {
		s.Events = append(s.Events, []int{0, 0, 0, 1, 2, 3, 4}[r.Intn(7)])
	}
	s.Consumer = []string{"prompt", "prompt", "slow", "stops"}[r.Intn(4)]
	s.StopAfter = r.Intn(3)
	s.End = []string{"close", "cancel", "cancel", "close+cancel"}[r.Intn(4)]
	if !strings.Contains(s.End, "cancel") {
		// a resolver that waits for the cancellation needs one
		for i, e := range s.Events {
			if e == 4 {
				s.Events[i] = 0
			}
		}
	}
	for _, c := range c15AllPark {
		if r.Chance(70) {
			s.Park = append(s.Park, c)
		}
	}
	s.Sticky = []int{0, 30, 60, 90}[r.Intn(4)]
	if s.SubMode == "block_ctx" && !strings.Contains(s.End, "cancel") {
		s.End = "cancel"
	}
	if strings.Contains(s.End, "cancel") && r.Chance(60) {
		s.CancelStep = r.Intn(10 + 12*len(s.Events))
	}
	s.BothReady = r.Chance(16)
	if s.BothReady && r.Chance(60) {
		s.SrcBuf = 1 + r.Intn(3)
	}
	return mustJSON(s)
}

func (c15) Shrink(scn json.RawMessage) []json.RawMessage {
	var s C15Scn
	json.Unmarshal(scn, &s)
	var out []json.RawMessage
	for i := range s.Events {
		t := s
		t.Events = append(append([]int(nil), s.Events[:i]...), s.Events[i+1:]...)
		out = append(out, mustJSON(t))
	}
	for i, e := range s.Events {
		if e != 0 {
			t := s
			t.Events = append([]int(nil), s.Events...)
			t.Events[i] = 0
			out = append(out, mustJSON(t))
		}
	}
	if s.BothReady {
		t := s
		t.BothReady = false
		t.SrcBuf = 0
		out = append(out, mustJSON(t))
	}
	if s.Req != 3 && s.Req < c15OKReqs {
		t := s
		t.Req = 3
		out = append(out, mustJSON(t))
	}
	return out
}

// c15Faults makes event i fail according to its mode.
func c15Faults(rq c15Req, events []int) map[string]string {
	f := map[string]string{}
	for i, m := range events {
		tag := "~ev" + strconv.Itoa(i)
		switch rq.Root {
		case "ticks":
			if m == 1 {
				f["R@ticks.s"+tag] = FErr
			} else if m == 2 {
				f["R@ticks.sNN"+tag] = FErr
			} else if m == 4 {
				f["R@ticks.s"+tag] = FBlockCancel
			}
		default:
			if m == 1 {
				f["R@"+rq.Root+".id"+tag] = FNil // id is ID!: nulls the (nullable) root field
			} else if m == 2 {
				f["R@"+rq.Root+tag] = FPanicErr
			} else if m == 4 {
				// a resolver that blocks until the request is cancelled
				f["R@"+rq.Root+".id"+tag] = FBlockCancel
			}
		}
	}
	return f
}

// c15Payload is the value of source event i: normally a token naming the
// event, for mode 3 a nil payload (a legal event, not the end of the stream).
func c15Payload(events []int, i int) interface{} {
	if events[i] == 3 {
		return nil
	}
	return Ev{N: i}
}

func (c15) Run(t TestingT, scn json.RawMessage, tape *Tape) *Outcome {
	var sc C15Scn
	if err := json.Unmarshal(scn, &sc); err != nil {
		return &Outcome{Infra: "bad scenario: " + err.Error()}
	}
	o := &Outcome{}
	rq := c15Reqs[sc.Req]
	if sc.NoCtx {
		return c15RunNoCtx(&sc, rq)
	}
	faults := c15Faults(rq, sc.Events)

	// reference: each event executed alone
	var solo []string
	if rq.Kind == "ok" {
		doc, err := parseDoc(rq.Query)
		if err != nil {
			return &Outcome{Infra: "c15: pool query does not parse"}
		}
		sw := NewWorld("A")
		for i := range sc.Events {
			rc := &ReqCtx{Task: "solo", W: sw, Faults: faults}
			if sc.Events[i] == 4 {
				solo = append(solo, "<blocks until cancelled>")
				continue
			}
			solo = append(solo, MarshalResult(graphql.Execute(graphql.ExecuteParams{Schema: sw.Schema, Root: c15Payload(sc.Events, i), AST: doc, OperationName: rq.Op, Args: rq.Vars, Context: WithReq(context.Background(), rc)})))
		}
	}

	s := NewSim(tape)
	s.Stickiness = sc.Sticky
	s.StepCap = 3000
	s.LowPrio["cons:poll-empty"] = true
	for _, c := range sc.Park {
		s.ParkSites[c] = true
	}
	// scheduler-side view of the history
	cancelled := false
	prodMidSend := false
	consWaiting := false
	sent, got := 0, 0
	fwdInLoop := false
	twoReady := false
	s.OnEvent = func(ev *Event) {
		switch ev.Site {
		case "sub.fwd.select":
			fwdInLoop = true
		case "prod:sending":
			if ev.Kind == "note" {
				prodMidSend = true
			}
		case "prod:sent", "prod:gave-up":
			prodMidSend = false
			if ev.Site == "prod:sent" {
				sent++
			}
		case "cons:waiting":
			consWaiting = true
		case "cons:got":
			consWaiting = false
			got++
		case "cons:closed":
			consWaiting = false
		}
	}
	wantCancel := strings.Contains(sc.End, "cancel")
	wantClose := strings.Contains(sc.End, "close")
	pan := Bubble(t, s, func() {
		w := NewWorld("A")
		ctx, cancel := context.WithCancel(context.Background())
		src := make(chan interface{}, sc.SrcBuf)
		w.SubSource = func(p graphql.ResolveParams) (interface{}, error) {
			if cs := Cur(); cs != nil {
				cs.Gate("sub", "client:subscribe-resolver", "")
				cs.Note("sub", "sub:field", PathString(p.Info.Path)+" "+jsonOf(p.Args))
			}
			switch sc.SubMode {
			case "err":
				return nil, errors.New("subscribe failed")
			case "nil":
				return nil, nil
			case "value":
				return Ev{N: 0}, nil
			case "panic_err":
				panic(errors.New("subscribe panic"))
			case "panic_str":
				panic("subscribe panic string")
			case "panic_int":
				panic(4711)
			case "closed":
				c := make(chan interface{})
				close(c)
				return c, nil
			case "block_ctx":
				// a source that is not ready: the resolver waits for it or for
				// the end of the request, whichever comes first
				<-p.Context.Done()
				return nil, p.Context.Err()
			}
			return src, nil
		}
		if wantCancel {
			a := s.AddAction("cancel", func() bool {
				if cancelled {
					return false
				}
				if !sc.BothReady {
					// keep the library's selects single-ready (DESIGN.md §2.9)
					// (a consumer blocked in receive while the forwarder is
					// about to deliver a result would make the forwarder's
					// send/Done select two-ready)
					if prodMidSend || (consWaiting && (sent > got || !fwdInLoop)) {
						return false
					}
				}
				if sc.CancelStep >= 0 {
					return s.Step >= sc.CancelStep
				}
				return true
			}, func() {
				cancelled = true
				cancel()
			})
			a.Forced = sc.CancelStep >= 0
			// if the run goes quiet before the cancellation was placed (a
			// consumer that stopped, a source that stays open), cancel then
			fin := s.AddAction("cancel", func() bool { return !cancelled }, func() {
				cancelled = true
				// nothing else could move (e.g. a resolver waiting for the end of
				// the request): if a consumer is blocked in receive while a result
				// is due, the forwarder's send/Done select is two-ready from here on
				if prodMidSend || (consWaiting && (sent > got || !fwdInLoop)) {
					twoReady = true
				}
				cancel()
			})
			fin.LastResort = true
		}
		// consumer (also the subscriber)
		s.Spawn("sub", func(tc *TaskCtx) {
			rc := &ReqCtx{Task: "sub", W: w, Faults: faults, Gates: true}
			rctx := WithReq(WithTask(ctx, "sub"), rc)
			s.Gate("sub", "client:subscribe", "")
			ch := graphql.Subscribe(graphql.Params{Schema: w.Schema, RequestString: rq.Query, OperationName: rq.Op, VariableValues: rq.Vars, Context: rctx})
			n := 0
			polls := 0
			for {
				if sc.Consumer == "stops" && n >= sc.StopAfter {
					s.Note("sub", "cons:stopped", strconv.Itoa(n))
					return
				}
				s.Gate("sub", "cons:recv", strconv.Itoa(n))
				if sc.Consumer == "slow" {
					s.Gate("sub", "cons:slow1", "")
					s.Gate("sub", "cons:slow2", "")
				}
				var res *graphql.Result
				var ok bool
				if ctx.Err() != nil && !sc.BothReady {
					// After cancellation a consumer blocked in receive would make
					// the forwarder's send/Done select two-ready (either branch is
					// legal, but not a function of the seed): poll instead, so
					// that only the "result dropped" branch is taken here; the
					// other branch belongs to the both-ready mode.
					select {
					case res, ok = <-ch:
					default:
						// released only when everything else is quiescent: if
						// the channel is still open then, it stays open
						if polls++; polls > 3 {
							s.Note("sub", "cons:gave-up", strconv.Itoa(n))
							return
						}
						s.Park("sub", "cons:poll-empty", strconv.Itoa(n))
						continue
					}
				} else {
					s.Note("sub", "cons:waiting", strconv.Itoa(n))
					res, ok = <-ch
				}
				if !ok {
					s.Note("sub", "cons:closed", strconv.Itoa(n))
					tc.Out["closed"] = "1"
					return
				}
				tc.Out["r"+strconv.Itoa(n)] = MarshalResult(res)
				s.Note("sub", "cons:got", strconv.Itoa(n))
				n++
			}
		})
		// producer
		if sc.SubMode == "chan" && rq.Kind == "ok" {
			s.Spawn("prod", func(tc *TaskCtx) {
				for i := range sc.Events {
					s.Gate("prod", "prod:send", strconv.Itoa(i))
					s.Note("prod", "prod:sending", strconv.Itoa(i))
					select {
					case src <- c15Payload(sc.Events, i):
						s.Note("prod", "prod:sent", strconv.Itoa(i))
					case <-ctx.Done():
						s.Note("prod", "prod:gave-up", strconv.Itoa(i))
						return
					}
				}
				if wantClose {
					s.Gate("prod", "prod:close", "")
					close(src)
					s.Note("prod", "prod:closed", "")
				}
			})
		}
		s.Run()
		if !cancelled {
			defer cancel()
		}
	})
	o.AbsorbSim(s)
	o.KeepTrace(s)
	o.NonDet = sc.BothReady || twoReady
	outs := s.Outs["sub"]
	// ---- history
	idxCancel := -1
	gotIdx := map[int]int{}
	closedSeen := false
	for i, e := range s.Trace {
		switch {
		case e.Kind == "act" && e.Site == "cancel" && idxCancel < 0:
			idxCancel = i
		case e.Site == "cons:got":
			k, _ := strconv.Atoi(e.Info)
			gotIdx[k] = i
		case e.Site == "cons:closed":
			closedSeen = true
		}
	}
	nGot := len(gotIdx)
	o.Nontrivial = nGot > 0 || idxCancel >= 0
	o.Sample = map[string]interface{}{"scenario": sc, "received": nGot, "sent": sent, "closed": closedSeen, "leaked": s.Leaked}
	if idxCancel >= 0 {
		o.Probe("cancelled")
		if sent > nGot {
			o.Probe("cancel-with-result-pending")
		}
	}
	if pan != nil && !strings.Contains(fmt.Sprint(pan), "blocked goroutines remain") {
		o.Violate("C15/panic", "a panic escaped: %v", pan)
		return o
	}
	if s.CapHit {
		o.Violate("C15/no-progress", "step cap reached: %d steps", s.Step)
		return o
	}
	// leak: after cancellation nothing the subscription started is still blocked
	if idxCancel >= 0 {
		for _, l := range s.Leaked {
			if strings.HasPrefix(l, "github.com/graphql-go/graphql") {
				o.Violate("C15/goroutine-leak", "after cancellation a goroutine started for the subscription is still blocked in %s (consumer=%s, received %d of %d forwarded events)", l, sc.Consumer, nGot, sent)
				break
			}
		}
	}
	// the subscription is taken out on the request's (included) root field, with
	// the coerced arguments
	for _, e := range s.Trace {
		if e.Site != "sub:field" {
			continue
		}
		field, args, _ := strings.Cut(e.Info, " ")
		if rq.Root != "" && field != rq.Root {
			o.Violate("C15/wrong-field-subscribed", "the Subscribe resolver of %q was called, the request's root field is %q", field, rq.Root)
		}
		if want := `{"k":"b","n":1,"st":"stamp\u003cs1\u003e"}`; rq.Name == "vars" && args != want {
			o.Violate("C15/subscribe-args", "the Subscribe resolver received %s, the coerced arguments are %s", args, want)
		}
	}
	keepsReading := sc.Consumer != "stops"
	ended := idxCancel >= 0 || (wantClose && sc.SubMode == "chan" && rq.Kind == "ok") || sc.SubMode != "chan" || rq.Kind != "ok"
	if keepsReading && ended && !closedSeen {
		o.Violate("C15/not-closed", "the consumer keeps reading and the subscription ended (source closed / cancelled / failed request) but the result channel was never closed; received=%d leaked=%v stuck=%v", nGot, s.Leaked, s.StuckOn)
	}
	// content and order
	if rq.Kind == "ok" && sc.SubMode == "chan" {
		if nGot > sent {
			o.Violate("C15/extra-result", "%d results for %d forwarded events", nGot, sent)
		}
		for k := 0; k < nGot && outs != nil; k++ { // (a consumer that never finished keeps its results)
			r := outs["r"+strconv.Itoa(k)]
			if k >= len(solo) {
				break
			}
			if r == solo[k] {
				continue
			}
			if sc.Events[k] == 4 {
				// the event's resolver waits for the cancellation: its result is
				// produced after it (context error or a field error), not judged
				continue
			}
			if idxCancel >= 0 && gotIdx[k] > idxCancel && isExactlyError(r, "context canceled") {
				o.Probe("ctx-error-result-after-cancel")
				continue
			}
			o.Violate("C15/wrong-result", "result %d differs from executing the selection with event %d as root\n  got: %s\n want: %s", k, k, r, solo[k])
		}
		// one result per event, in order: the execution of event k+1 begins only
		// after result k was handed to the consumer, so when the consumer gets
		// its k-th result no more than k+1 executions have begun in earlier
		// steps (a dropped result followed by a delivered later one shows here
		// even when both are indistinguishable context errors)
		for k := 0; k < nGot; k++ {
			gi := gotIdx[k]
			begun := 0
			for _, e := range s.Trace {
				if e.Site == "plan.exec.start" && (e.Kind == "park" || e.Kind == "note") && strings.HasPrefix(e.Task, "sub/") && e.Step < s.Trace[gi].Step {
					begun++
				}
			}
			if begun > k+1 {
				o.Violate("C15/result-skipped", "when the consumer received its result number %d, %d executions of the selection had begun: the result of an earlier event was dropped and a later one delivered (results: %v)", k, begun, outs)
				break
			}
		}
		if idxCancel < 0 && keepsReading && nGot != sent {
			o.Violate("C15/lost-result", "no cancellation, consumer keeps reading, but %d results for %d forwarded events", nGot, sent)
		}
		if idxCancel < 0 && keepsReading && wantClose && sent != len(sc.Events) {
			o.Violate("C15/lost-event", "only %d of %d events were taken from the source", sent, len(sc.Events))
		}
	} else {
		// a request that fails to parse, validate or subscribe: exactly one
		// error result, then closed (a cancellation may pre-empt the result)
		want := 1
		if sc.SubMode == "closed" && rq.Kind == "ok" {
			want = 0 // a valid stream that is already closed: zero events
		}
		cancelledEarly := idxCancel >= 0 && (nGot == 0 || gotIdx[0] > idxCancel)
		if keepsReading && nGot != want && !(cancelledEarly && nGot < want) {
			o.Violate("C15/failing-request-results", "request kind %s / subscribe mode %s delivered %d results, expected exactly %d", rq.Kind, sc.SubMode, nGot, want)
		}
		if nGot >= 1 && want == 1 && sc.SubMode != "value" && outs != nil {
			var dec struct {
				Data   interface{}   `json:"data"`
				Errors []interface{} `json:"errors"`
			}
			json.Unmarshal([]byte(outs["r0"]), &dec)
			if dec.Data != nil || len(dec.Errors) == 0 {
				o.Violate("C15/failing-request-shape", "the single result of a failing request is not an error result: %s", outs["r0"])
			}
		}
	}
	return o
}

// c15RunNoCtx subscribes without a context. Nothing is scheduled: the events
// are waiting in a closed stream, the consumer reads until the result channel
// is closed, and every result must equal the execution of the selection with
// that event as root value (also without a context).
func c15RunNoCtx(sc *C15Scn, rq c15Req) *Outcome {
	o := &Outcome{}
	doc, err := parseDoc(rq.Query)
	if err != nil {
		return &Outcome{Infra: "c15: pool query does not parse"}
	}
	sw := NewWorld("A")
	var solo []string
	for i := range sc.Events {
		solo = append(solo, MarshalResult(graphql.Execute(graphql.ExecuteParams{Schema: sw.Schema, Root: c15Payload(sc.Events, i), AST: doc, OperationName: rq.Op, Args: rq.Vars})))
	}
	w := NewWorld("A")
	w.SubSource = func(p graphql.ResolveParams) (interface{}, error) {
		// user code uses the context it is handed
		if p.Context.Err() != nil {
			return nil, p.Context.Err()
		}
		_ = p.Context.Value(reqKey{})
		c := make(chan interface{}, len(sc.Events)+1)
		for i := range sc.Events {
			c <- c15Payload(sc.Events, i)
		}
		close(c)
		return c, nil
	}
	ch := graphql.Subscribe(graphql.Params{Schema: w.Schema, RequestString: rq.Query, OperationName: rq.Op, VariableValues: rq.Vars})
	var got []string
	guard := time.After(20 * time.Second) // real time: nothing here waits for anything
	closed := false
	for !closed {
		select {
		case r, ok := <-ch:
			if !ok {
				closed = true
			} else {
				got = append(got, MarshalResult(r))
			}
		case <-guard:
			o.Violate("C15/not-closed", "subscription without a context over a closed stream of %d events: the result channel was not closed after %d results", len(sc.Events), len(got))
			closed = true
		}
	}
	o.Fire("no-context", 1)
	o.Steps = len(got)
	o.Nontrivial = len(got) > 0
	o.TraceHash = fmt.Sprintf("noctx-%d-%v", sc.Req, sc.Events)
	o.Trace = got
	o.Sample = map[string]interface{}{"scenario": sc, "results": got}
	if len(got) != len(solo) {
		o.Violate("C15/lost-event", "subscription without a context: %d source events, %d results: %v", len(solo), len(got), got)
		return o
	}
	for i := range got {
		if got[i] != solo[i] {
			o.Violate("C15/wrong-result", "subscription without a context: result %d differs from executing the selection with event %d as root\n  got: %s\n want: %s", i, i, got[i], solo[i])
		}
	}
	return o
}
