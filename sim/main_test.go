package sim

import (
	"bufio"
	"encoding/json"
	"fmt"
	"os"
	"runtime"
	"runtime/debug"
	"strings"
	"testing"
	"time"

	"github.com/graphql-go/graphql"
)

// Job is what the driver asks one worker process to do.
type Job struct {
	Prop      string          `json:"prop"`
	Tier      string          `json:"tier"`
	Mode      string          `json:"mode"` // seeds | enum | replay
	Start     uint64          `json:"start"`
	Count     int             `json:"count"`
	Stride    uint64          `json:"stride"`
	Out       string          `json:"out"`
	Scenario  json.RawMessage `json:"scenario,omitempty"`
	Tape      []uint32        `json:"tape,omitempty"`
	KeepTrace bool            `json:"keep_trace"`
	Deadline  float64         `json:"deadline_s"` // wall-clock budget for this job
	Samples   int             `json:"samples"`
	Class     string          `json:"class,omitempty"`  // minimise: the violation class to preserve
	Hashes    bool            `json:"hashes,omitempty"` // emit one {"seed","h"} line per run (determinism self-test)
	Cursor    string          `json:"cursor,omitempty"` // file receiving the index of the run in progress
}

// Summary is the last line a seeds/enum worker writes.
type Summary struct {
	Kind        string            `json:"kind"`
	Evaluations int               `json:"evaluations"`
	Nontrivial  int               `json:"nontrivial"`
	Hashes      []string          `json:"hashes"`
	Steps       int64             `json:"steps"`
	Switches    int64             `json:"switches"`
	FakeNs      int64             `json:"fake_ns"`
	Fired       map[string]int    `json:"fired"`
	Probes      map[string]int    `json:"probes"`
	Classes     map[string]int    `json:"classes"`
	Refs        map[string]string `json:"refs,omitempty"`
	WallS       float64           `json:"wall_s"`
}

// Record is one line of the worker's JSONL output.
type Record struct {
	Prop     string          `json:"prop"`
	Seed     uint64          `json:"seed"`
	Enum     int             `json:"enum"`
	Scenario json.RawMessage `json:"scenario,omitempty"`
	Outcome  *Outcome        `json:"outcome"`
	WallMs   float64         `json:"wall_ms"`
	Tried    int             `json:"tried,omitempty"`
}

var nRuns int
var curIndex uint64

func TestMain(m *testing.M) {
	graphql.SetSimHook(libHook)
	os.Exit(m.Run())
}

func TestSim(t *testing.T) {
	path := os.Getenv("VERIF_JOB")
	if path == "" {
		t.Skip("VERIF_JOB not set")
	}
	b, err := os.ReadFile(path)
	if err != nil {
		t.Fatal(err)
	}
	var job Job
	if err := json.Unmarshal(b, &job); err != nil {
		t.Fatal(err)
	}
	p, ok := props[job.Prop]
	if !ok {
		t.Fatalf("unknown property %q", job.Prop)
	}
	f, err := os.OpenFile(job.Out, os.O_CREATE|os.O_WRONLY|os.O_APPEND, 0o644)
	if err != nil {
		t.Fatal(err)
	}
	defer f.Close()
	wr := bufio.NewWriter(f)
	defer wr.Flush()
	if job.Stride == 0 {
		job.Stride = 1
	}
	// one discarded warm-up run: first-use initialisation in the process takes
	// long enough to be time-sliced
	// (not in the race build: the race runtime reports each pair of stacks only
	// once per process, a warm-up run would swallow the first report)
	WorkerOrdinal = int(job.Start % 1024)
	if job.Mode != "info" && !RaceBuild {
		runGuardedGen(t, p, func() json.RawMessage { return p.Gen(7, -1, job.Tier) }, NewSeedTape(7))
	}
	start := time.Now()
	emit := func(rec *Record, keep bool) {
		if !keep && len(rec.Outcome.Violations) == 0 && rec.Outcome.Infra == "" {
			rec.Outcome.Trace = nil
			rec.Outcome.Tape = nil
			rec.Outcome.Sample = nil
			rec.Scenario = nil
		}
		line, _ := json.Marshal(rec)
		wr.Write(line)
		wr.WriteByte('\n')
		wr.Flush()
	}
	onStall = func(scn json.RawMessage, tape *Tape, detail string) {
		o := &Outcome{}
		o.Violate(job.Prop+"/deadlock-on-lock", "%s", detail)
		if tape != nil {
			o.Tape = tape.Used
		}
		emit(&Record{Prop: job.Prop, Seed: curIndex, Enum: -1, Scenario: scn, Outcome: o}, true)
	}
	switch job.Mode {
	case "info":
		// (the enumeration tables are built by executing the pool requests once:
		// under the watchdog, like everything else that calls into the library)
		size := 0
		runGuardedGen(t, infoProp{}, func() json.RawMessage { size = p.EnumSize(job.Tier); return nil }, nil)
		line, _ := json.Marshal(map[string]interface{}{"prop": job.Prop, "enum_size": size, "race_build": RaceBuild})
		wr.Write(line)
		wr.WriteByte('\n')
	case "shrinklist":
		for _, c := range p.Shrink(job.Scenario) {
			line, _ := json.Marshal(map[string]interface{}{"kind": "candidate", "scenario": c})
			wr.Write(line)
			wr.WriteByte('\n')
		}
	case "minimise":
		scn, tape, o, tried := minimise(t, p, job.Scenario, job.Tape, job.Class, job.Deadline)
		rec := &Record{Prop: job.Prop, Scenario: scn, Outcome: o, Enum: -1, Tried: tried}
		rec.Outcome.Tape = tape
		emit(rec, true)
	case "replay":
		o := runGuarded(t, p, job.Scenario, NewExplicitTape(job.Tape))
		emit(&Record{Prop: job.Prop, Scenario: job.Scenario, Outcome: o, Enum: -1}, true)
	default:
		sum := &Summary{Kind: "summary", Fired: map[string]int{}, Probes: map[string]int{}, Classes: map[string]int{}}
		hashes := map[string]bool{}
		defer func() {
			for h := range hashes {
				sum.Hashes = append(sum.Hashes, h)
			}
			sum.WallS = time.Since(start).Seconds()
			line, _ := json.Marshal(sum)
			wr.Write(line)
			wr.WriteByte('\n')
		}()
		var cursor *os.File
		if job.Cursor != "" {
			cursor, _ = os.OpenFile(job.Cursor, os.O_CREATE|os.O_WRONLY, 0o644)
			defer cursor.Close()
		}
		for i := 0; i < job.Count; i++ {
			if job.Deadline > 0 && time.Since(start).Seconds() > job.Deadline {
				break
			}
			idx := job.Start + uint64(i)*job.Stride
			curIndex = idx
			if cursor != nil {
				cursor.WriteAt([]byte(fmt.Sprintf("%020d\n", idx)), 0)
			}
			enum := -1
			var tape *Tape
			var gen func() json.RawMessage
			if job.Mode == "enum" {
				if int(idx) >= p.EnumSize(job.Tier) {
					break
				}
				enum = int(idx)
				gen = func() json.RawMessage { return p.Gen(0, enum, job.Tier) }
				tape = NewSeedTape(uint64(enum))
			} else {
				gen = func() json.RawMessage { return p.Gen(idx, -1, job.Tier) }
				if fixed := os.Getenv("VERIF_FIXED_SCENARIO"); fixed != "" {
					// development aid: one hand-written scenario under many tapes
					gen = func() json.RawMessage { return json.RawMessage(fixed) }
				}
				tape = NewSeedTape(idx)
			}
			t0 := time.Now()
			o, scn := runGuardedGen(t, p, gen, tape)
			if RaceBuild && job.Prop != "C07" {
				// every property's runs are judged by the race detector in the
				// race build (C07 collects its reports itself)
				for _, v := range newRaceReports(job.Prop) {
					if strings.HasSuffix(v.Class, "/harness-race") {
						o.Infra = "race report without a library frame (harness bug):\n" + v.Detail
					} else {
						o.Violations = append(o.Violations, v)
					}
				}
			}
			rec := &Record{Prop: job.Prop, Seed: idx, Enum: enum, Scenario: scn, Outcome: o, WallMs: float64(time.Since(t0).Microseconds()) / 1000}
			sum.Evaluations++
			if job.Hashes {
				cls := o.Classes()
				line, _ := json.Marshal(map[string]interface{}{"kind": "hash", "seed": idx, "enum": enum, "h": o.TraceHash, "classes": cls, "steps": o.Steps, "nondet": o.NonDet})
				wr.Write(line)
				wr.WriteByte('\n')
			}
			sum.Steps += int64(o.Steps)
			sum.Switches += int64(o.Switches)
			sum.FakeNs += o.FakeNanos
			for k, v := range o.Fired {
				sum.Fired[k] += v
			}
			for k, v := range o.Probes {
				sum.Probes[k] += v
			}
			for _, c := range o.Classes() {
				sum.Classes[c]++
			}
			for k, v := range o.Refs {
				if sum.Refs == nil {
					sum.Refs = map[string]string{}
				}
				if old, ok := sum.Refs[k]; ok && old != v {
					sum.Refs[k] = old + "|" + v
				} else {
					sum.Refs[k] = v
				}
			}
			if o.Nontrivial {
				sum.Nontrivial++
				hashes[o.TraceHash] = true
			}
			if len(o.Violations) > 0 || o.Infra != "" || i < job.Samples || job.KeepTrace {
				emit(rec, i < job.Samples || job.KeepTrace)
			}
			if RaceBuild && raceReported(o) {
				// the race runtime reports each pair of stacks once per process:
				// retire this worker so later runs are not silently clean
				return
			}
		}
	}
}

// runGuarded runs one scenario with a real-time watchdog and converts escaped
// panics of the harness itself into infrastructure errors.
func runGuarded(t *testing.T, p Prop, scn json.RawMessage, tape *Tape) (o *Outcome) {
	o, _ = runGuardedGen(t, p, func() json.RawMessage { return scn }, tape)
	return o
}

// runGuardedGen also puts the scenario generation under the watchdog: generators
// execute requests against the library (dry runs), and a library deadlock that
// needs no particular schedule would otherwise hang there.
func runGuardedGen(t *testing.T, p Prop, gen func() json.RawMessage, tape *Tape) (o *Outcome, scn json.RawMessage) {
	// No garbage collection while a run is in progress: GC work preempts
	// goroutines and can reorder the ones woken within one scheduler step.
	// (collections happen explicitly: before every bubble, see Bubble, and here
	// every 50 runs for the checks that use no bubble)
	nRuns++
	if nRuns%50 == 0 {
		runtime.GC()
	}
	debug.SetGCPercent(-1)
	done := make(chan struct{})
	go func() {
		select {
		case <-done:
		case <-time.After(45 * time.Second):
			// Nothing in a run takes real time, so a stall means a goroutine is
			// blocked in a way synctest cannot see through: a sync.Mutex wait.
			// No task ever parks while holding a library lock, so a goroutine
			// that sits in a library mutex for 45 s of real time is deadlocked
			// (a lock taken twice, or a cycle). Anything else is harness trouble.
			buf := make([]byte, 4<<20)
			buf = buf[:runtime.Stack(buf, true)]
			if fn := lockedLibraryFrame(string(buf)); fn != "" && onStall != nil {
				onStall(scn, tape, "a goroutine has been blocked for 45 s of real time acquiring a lock in "+fn+" while every other goroutine of the run is parked or blocked: deadlock")
				fmt.Fprintf(os.Stderr, "WATCHDOG-DEADLOCK: %s\n", fn)
				os.Exit(3)
			}
			fmt.Fprintf(os.Stderr, "WATCHDOG: run exceeded 45s real time; scenario=%s\n%s\n", scn, buf)
			os.Exit(3)
		}
	}()
	defer close(done)
	defer func() {
		if r := recover(); r != nil {
			o = &Outcome{Infra: fmt.Sprintf("harness panic: %v", r)}
		}
	}()
	scn = gen()
	return p.Run(t, scn, tape), scn
}

func hasClass(o *Outcome, class string) bool {
	for _, v := range o.Violations {
		if v.Class == class {
			return true
		}
	}
	return false
}

// minimise shrinks scenario and tape while the violation class persists
// (DESIGN.md §2.11): scenario candidates first, then the tape (truncate, zero).
func minimise(t *testing.T, p Prop, scn json.RawMessage, tape []uint32, class string, budget float64) (json.RawMessage, []uint32, *Outcome, int) {
	start := time.Now()
	if budget <= 0 {
		budget = 20
	}
	tried := 0
	try := func(s json.RawMessage, tp []uint32) *Outcome {
		tried++
		o := runGuarded(t, p, s, NewExplicitTape(tp))
		if o.Infra == "" && hasClass(o, class) {
			return o
		}
		return nil
	}
	best := try(scn, tape)
	if best == nil {
		return scn, tape, &Outcome{Infra: "minimise: the violation did not reproduce from scenario+tape"}, tried
	}
	timeUp := func() bool { return time.Since(start).Seconds() > budget }
	// 1. scenario
	for progress := true; progress && !timeUp(); {
		progress = false
		for _, cand := range p.Shrink(scn) {
			if timeUp() {
				break
			}
			if o := try(cand, tape); o != nil {
				scn, best, progress = cand, o, true
				break
			}
		}
	}
	// 2. tape: drop the unused tail, then truncate, then zero entries
	if n := len(best.Tape); n < len(tape) {
		tape = tape[:n]
	}
	for len(tape) > 0 && !timeUp() {
		half := tape[:len(tape)/2]
		if o := try(scn, half); o != nil {
			tape, best = half, o
			continue
		}
		break
	}
	for len(tape) > 0 && !timeUp() {
		if o := try(scn, tape[:len(tape)-1]); o != nil {
			tape, best = tape[:len(tape)-1], o
			continue
		}
		break
	}
	for i := 0; i < len(tape) && !timeUp(); i++ {
		if tape[i] == 0 {
			continue
		}
		c := append([]uint32(nil), tape...)
		c[i] = 0
		if o := try(scn, c); o != nil {
			tape, best = c, o
		}
	}
	// 3. scenario again with the smaller tape
	for progress := true; progress && !timeUp(); {
		progress = false
		for _, cand := range p.Shrink(scn) {
			if timeUp() {
				break
			}
			if o := try(cand, tape); o != nil {
				scn, best, progress = cand, o, true
				break
			}
		}
	}
	return scn, tape, best, tried
}

// onStall is set by TestSim: it records a deadlock violation before the worker exits.
var onStall func(scn json.RawMessage, tape *Tape, detail string)

// lockedLibraryFrame returns the library function in which some goroutine is
// waiting for a sync.Mutex / RWMutex, or "".
func lockedLibraryFrame(dump string) string {
	for _, g := range strings.Split(dump, "\n\n") {
		if !strings.Contains(g, "sync.(*Mutex).Lock") && !strings.Contains(g, "sync.(*RWMutex).Lock") && !strings.Contains(g, "sync.(*RWMutex).RLock") {
			continue
		}
		for _, l := range strings.Split(g, "\n") {
			if strings.HasPrefix(l, "github.com/graphql-go/graphql") && !strings.Contains(l, "/verifmo.") {
				if i := strings.LastIndexByte(l, '('); i > 0 {
					return l[:i]
				}
				return l
			}
		}
	}
	return ""
}

func raceReported(o *Outcome) bool {
	for _, v := range o.Violations {
		if len(v.Class) > 10 && v.Class[len(v.Class)-10:] == "/data-race" {
			return true
		}
	}
	return false
}

// infoProp is a no-op property used to run a function under the watchdog.
type infoProp struct{}

func (infoProp) ID() string                                    { return "info" }
func (infoProp) EnumSize(string) int                           { return 0 }
func (infoProp) Gen(uint64, int, string) json.RawMessage       { return nil }
func (infoProp) Run(TestingT, json.RawMessage, *Tape) *Outcome { return &Outcome{} }
func (infoProp) Shrink(json.RawMessage) []json.RawMessage      { return nil }
