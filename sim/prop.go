package sim

import (
	"encoding/json"
	"fmt"
	"sort"
)

// Violation is one oracle failure. Class identifies the kind of failure in a
// way that is stable under minimisation (property, oracle clause, position).
type Violation struct {
	Class  string `json:"class"`
	Detail string `json:"detail"`
}

// Outcome is what one simulated run reports.
type Outcome struct {
	Violations []Violation    `json:"violations,omitempty"`
	TraceHash  string         `json:"trace_hash"`
	Steps      int            `json:"steps"`
	Switches   int            `json:"switches"`
	FakeNanos  int64          `json:"fake_ns"`
	Fired      map[string]int `json:"fired,omitempty"`  // fault kinds that actually fired
	Probes     map[string]int `json:"probes,omitempty"` // rare-condition probes hit
	Nontrivial bool           `json:"nontrivial"`
	Tape       []uint32       `json:"tape,omitempty"`
	Trace      []string       `json:"trace,omitempty"`
	Sample     interface{}    `json:"sample,omitempty"`
	Infra      string         `json:"infra,omitempty"` // harness trouble: exit 2, never a violation
	// Refs are named reference values (hashes) that must agree between worker
	// processes; the driver compares them.
	Refs map[string]string `json:"refs,omitempty"`
	// NonDet marks runs of the both-ready mode (DESIGN.md §2.9): the library's
	// select may legally take either branch, so the trace is not a function of
	// the seed and the run is excluded from the determinism self-test.
	NonDet bool `json:"nondet,omitempty"`
}

func (o *Outcome) Violate(class, format string, a ...interface{}) {
	o.Violations = append(o.Violations, Violation{Class: class, Detail: fmt.Sprintf(format, a...)})
}
func (o *Outcome) Fire(kind string, n int) {
	if n == 0 {
		return
	}
	if o.Fired == nil {
		o.Fired = map[string]int{}
	}
	o.Fired[kind] += n
}
func (o *Outcome) Probe(name string) {
	if o.Probes == nil {
		o.Probes = map[string]int{}
	}
	o.Probes[name]++
}
func (o *Outcome) AbsorbSim(s *Sim) {
	o.TraceHash = s.TraceHash()
	o.Steps += s.Step
	o.Switches += s.Switches
	o.Tape = s.Tape.Used
	for k, v := range s.Acts {
		o.Fire("env:"+k, v)
	}
}
func (o *Outcome) KeepTrace(s *Sim) {
	o.Trace = o.Trace[:0]
	for _, e := range s.Trace {
		o.Trace = append(o.Trace, e.String())
	}
}

// Classes returns the sorted distinct violation classes.
func (o *Outcome) Classes() []string {
	m := map[string]bool{}
	for _, v := range o.Violations {
		m[v.Class] = true
	}
	out := make([]string, 0, len(m))
	for k := range m {
		out = append(out, k)
	}
	sort.Strings(out)
	return out
}

// Prop is one property's scenario generator, runner and shrinker.
type Prop interface {
	ID() string
	// EnumSize is the size of the enumerated part of the scenario space for the
	// tier (0 = none). Index i < EnumSize selects the i-th enumerated scenario.
	EnumSize(tier string) int
	// Gen produces the scenario for a seed (enum < 0) or an enumeration index.
	Gen(seed uint64, enum int, tier string) json.RawMessage
	// Run executes one scenario under one tape.
	Run(t TestingT, scn json.RawMessage, tape *Tape) *Outcome
	// Shrink proposes simpler scenarios.
	Shrink(scn json.RawMessage) []json.RawMessage
}

var props = map[string]Prop{}

func Register(p Prop) { props[p.ID()] = p }

func mustJSON(v interface{}) json.RawMessage {
	b, err := json.Marshal(v)
	if err != nil {
		panic(err)
	}
	return b
}

// WorkerOrdinal distinguishes the worker processes of one check (the index of
// the first run of the process): checks that compare results across fresh
// processes use it to start each process with a different request order.
var WorkerOrdinal int
