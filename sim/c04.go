package sim

import (
	"context"
	"encoding/json"
	"fmt"
	"hash/fnv"
	"reflect"
	"sort"
	"strconv"
	"strings"

	"github.com/graphql-go/graphql"
	"github.com/graphql-go/graphql/verifmo"
)

// C04 — responses are well-formed for schema and query whatever resolvers return.
//
// The fault-free run of a request gives the baseline tree and the declared type
// of every response position; a fault-injecting run of the same request is
// compared with the null-propagation reference model applied to the baseline.

var c04Queries = []string{
	`{ x1 x2 x3 }`,
	`{ leafy { s i f b id e st sNN iNN li liNN le lst } x1 }`,
	`{ leafy { le lst sub { le } } a { items(n:2) { kind } } x2 }`,
	`{ leafyNN { s sNN } x1 }`,
	`{ leafy { sub { s sNN sub { iNN s } } s } x2 }`,
	`{ deep { v vNN d { v vNN } dNN { v vNN } } x1 }`,
	`{ deep { l { v vNN } lNN { v } lOfNN { v vNN } lNNNN { vNN } } x1 }`,
	`{ deep { ll { v vNN d { vNN } } } x2 }`,
	`{ deepNN { v dNN { vNN dNN { vNN } } } x1 }`,
	`{ deepNN { lNNNN { vNN dNN { vNN } } } x1 }`,
	`{ deep { d { d { d { vNN } dNN { vNN } } } } deepNN { v } }`,
	`{ deep { node { id name } nodeNN { id name } v } x1 }`,
	`{ deep { node(as:"B") { id ... on B { bOnly nn { s sNN } } } } x3 }`,
	`{ a { id name kind aOnly items(n:3) { n label kind stamp } } x1 }`,
	`{ a { items(n:2) { n owner { id name } } leafy { s } } }`,
	`{ a { u { ... on A { aOnly } ... on B { bOnly nn { sNN } } } name } x2 }`,
	`{ b { id bOnly nn { s sNN iNN } nodes(n:3) { id name } } x1 }`,
	`{ b { nodes(n:2) { id ... on A { aOnly items(n:1) { n } } ... on B { bOnly nn { s } } ... on C { cOnly matrix } } } }`,
	`{ b { u { ... on A { aOnly leafy { s } } ... on B { bOnly } } peer { id } } x1 }`,
	`{ c { id cOnly matrix deep { v lNN { vNN } } } x1 }`,
	`{ c { deep { nodeNN { id peer { id } } } name } x3 }`,
	`{ node { id name kind peer { id name } } x1 }`,
	`{ node(as:"A") { id ... on A { items(n:2) { n kind } u { ... on B { bOnly } } } } }`,
	`{ nodes(n:3) { id name peer { id } } x2 }`,
	`{ nodes(n:2) { ... on A { aOnly leafy { sNN } } ... on B { nn { sNN } } ... on C { deep { vNN } } } x1 }`,
	`{ u { ... on A { id aOnly } ... on B { id bOnly nodes(n:1) { id } } } x1 }`,
	`{ p: leafy { q: s r: sNN } t: x1 u2: leafyNN { w: iNN } }`,
	`{ ...F x1 } fragment F on Query { leafy { s ...G } deep { vNN } } fragment G on Leafy { sNN li }`,
	`{ a { ...NF } b { ...NF } } fragment NF on Node { id name peer { id kind } }`,
	`{ echo(s:"x", i:3) leafy { e le st } x2 }`,
	`{ deep { lOfNN { lOfNN { vNN } } lNN { lNN { v } } } }`,
	`{ deep { ll { ll { vNN } } } leafy { liNN } }`,
	`{ a { items(n:2) { owner(as:"C") { ... on C { cOnly deep { vNN } } } n } } }`,
	`{ solo { ... on B { bOnly } } node(as:"A") { ... on A { solo { ... on B { id nn { sNN } } } } } c { solo { ... on B { bOnly } } } }`,
	`{ a { ...P } c { ...P } b { ...P } nodes(n:3) { ...P } } fragment P on Node { peer(as:"B") { id } ... on A { peer(as:"B") { ... on B { bOnly } } } ... on C { peer(as:"B") { name } } }`,
	`{ nodes(n:3, as:"A") { ... on A { u(as:"B") { ... on B { id } } } } a { u(as:"B") { ... on B { id bOnly } } } u(as:"A") { ... on A { u(as:"B") { ... on B { name } } } } }`,
	`query($no:Boolean = false, $yes:Boolean = true){ ... @include(if:$no) { ...G x3 } ... @skip(if:$yes) { ...G } ...H @skip(if:$no) x1 } fragment G on Query { x2 leafy { sNN s } } fragment H on Query { x4 ... @include(if:$no) { ...G } }`,
	`{ echo(i:1, s:"k") ... @skip(if:true) { x1 leafy { sNN } } ... @include(if:true) { x2 } a { ... on A @skip(if:true) { aOnly } ... on Node @include(if:true) { id } items(n:2) { n } } }`,
	`{ nodes(n:3) { meta { s } ... on A { meta { i } } ... on C { meta { f sNN } } } a { ...M } c { ...M } b { ...M } } fragment M on Node { meta { s } ... on A { meta { i } } ... on C { meta { b } } }`,
	`{ nodes(n:3) { id ... on U { __typename ... on A { aOnly } } ... on Solo { ... on B { bOnly } } } node(as:"C") { ... on U { __typename ... on A { name } } id } u { ... on Node { id ... on Solo { __typename } } } x1 }`,
	`query($no:Boolean = false, $yes:Boolean = true){ x1 @skip(if:$yes) x1 a @include(if:$no) { name } a { id leafy { s @skip(if:$yes) s sNN } } ...G @skip(if:$yes) ...G ... @include(if:$no) { ...H } ...H } fragment G on Query { x2 leafy { s } } fragment H on Query { x3 leafy { sNN } }`,
	// object positions whose whole sub-selection is switched off by literal
	// directives (the object is still completed and guarded: {} or null + error)
	`{ a { name @skip(if:true) } b { ... @include(if:false) { id } } nodes(n:2) { ... on A @skip(if:true) { id } ... on B { bOnly @include(if:false) } } leafyNN { s @skip(if:true) } u { ... on A @include(if:false) { aOnly } } x1 }`,
	// an abstract type without a type resolver whose members' IsTypeOf overlap
	`{ fcs(n:3) { ... on First { id title } ... on Catch { id kind } } fc(as:"First") { ... on First { title } ... on Catch { kind } } f2: fc(as:"Catch") { ... on Catch { id title } } x1 }`,
	`mutation { m1(v:1) { id nn { sNN } } s1(v:2) m2(v:3) { nodes(n:2) { id } } }`,
	`mutation { deep { dNN { vNN } v } node(as:"B") { id ... on B { nn { s } } } s2(v:1) }`,
}

// variables of pool queries (the declared defaults say the same)
var c04Vars = map[string]map[string]interface{}{}

func init() {
	for _, q := range c04Queries {
		if strings.HasPrefix(q, "query($no:Boolean") {
			c04Vars[q] = map[string]interface{}{"no": false, "yes": true}
		}
	}
}

type C04Scn struct {
	Query    string            `json:"query"`
	Faults   map[string]string `json:"faults"`
	Entry    string            `json:"entry"`               // do | plan
	AllThunk bool              `json:"all_thunk,omitempty"` // every resolver defers its value
	// Vars: variables of a generated document (pool documents have fixed ones)
	Vars      map[string]interface{} `json:"vars,omitempty"`
	Generated bool                   `json:"generated,omitempty"`
	Order    uint32            `json:"order"`
	Salt     uint64            `json:"salt"`
}

type c04 struct{}

func init() { Register(c04{}) }

func (c04) ID() string { return "C04" }

// fault kinds applicable per position class
var (
	c04Any      = []string{FErr, FValErr, FPanicErr, FPanicStr, FPanicInt, FNil, FTypedNil, FThunk, FThunk2, FThunkErr, FThunkPanic, FThunkNil, FThunkBad, FThunkValErr, FForeignErr, FSentinelErr, FSharedErr}
	c04Leaf     = []string{FWrongKind, FNaN, FBigInt, FBigIntStr, FBadEnum}
	c04List     = []string{FWrongKind, FNotIter, FElemThunk}
	c04LeafList = []string{FElemPanic}
	c04Abs      = []string{FRTNil, FRTWrong, FRTOther, FRTPanic, FWrongKind}
	c04IsType   = []string{FITFalse, FITPanic}
	c04Stamp    = []string{FSerNil, FSerPanic}
	deferredFK  = map[string]bool{FThunkErr: true, FThunkPanic: true, FThunkNil: true, FThunkBad: true, FThunkValErr: true}
)

type c04Pos struct {
	Path string
	Type string
}

type c04Info struct {
	Query     string
	Root      string
	Baseline  interface{} // decoded JSON of the fault-free data
	Types     map[string]string
	Positions []c04Pos
	Kinds     map[string][]string // applicable fault kinds per path
	// Consulted: "IT@path" / "RT@path" for every position at which the
	// fault-free run consulted an IsTypeOf function / a type resolver
	Consulted map[string]bool
}

var c04Cache = map[string]*c04Info{}

// generated documents (gendoc.go): their variables travel in the scenario; a
// generated document whose fault-free run has errors is not judged (probe)
var c04Generated = map[string]bool{}
var c04Rejected = map[string]string{}

func namedOf(t string) string {
	return strings.Trim(t, "[]!")
}

func elemType(t string) string {
	t = strings.TrimSuffix(t, "!")
	if strings.HasPrefix(t, "[") && strings.HasSuffix(t, "]") {
		return t[1 : len(t)-1]
	}
	return ""
}

func isListType(t string) bool { return strings.HasPrefix(strings.TrimSuffix(t, "!"), "[") }

var c04LeafNames = map[string]bool{"String": true, "Int": true, "Float": true, "Boolean": true, "ID": true, "Kind": true, "Stamp": true}
var c04AbsNames = map[string]bool{"Node": true, "U": true, "Solo": true, "FC": true}
var c04IsTypeNames = map[string]bool{"A": true, "B": true, "C": true, "First": true, "Catch": true}

func c04Analyse(q string) *c04Info {
	// (a generated document can recur with other variable values: the
	// fault-free run depends on both)
	cacheKey := q + "\x00" + jsonOf(c04Vars[q])
	if ci, ok := c04Cache[cacheKey]; ok {
		return ci
	}
	verifmo.Set(verifmo.Sorted, 0)
	w := NewWorld("A")
	root := "Query"
	if strings.HasPrefix(q, "mutation") {
		root = "Mutation"
	}
	rc := &ReqCtx{Task: "base", W: w, RootTok: Tok{T: root}}
	res := graphql.Do(graphql.Params{Schema: w.Schema, RequestString: q, VariableValues: c04Vars[q], Context: WithReq(context.Background(), rc)})
	if len(res.Errors) > 0 {
		if c04Generated[q] {
			c04Rejected[q] = MarshalResult(res)
			return nil
		}
		panic("c04: baseline of " + q + " has errors: " + MarshalResult(res))
	}
	var base interface{}
	b, _ := json.Marshal(res.Data)
	json.Unmarshal(b, &base)
	ci := &c04Info{Query: q, Root: root, Baseline: base, Types: rc.Types, Kinds: map[string][]string{}, Consulted: map[string]bool{}}
	for _, l := range rc.Log {
		switch {
		case strings.HasPrefix(l, "RT:"):
			ci.Consulted["RT@"+l[3:]] = true
		case strings.HasPrefix(l, "IT:"):
			if _, path, ok := strings.Cut(l[3:], "@"); ok {
				ci.Consulted["IT@"+path] = true
			}
		}
	}
	for _, p := range SortedKeys(rc.Types) {
		t := rc.Types[p]
		ci.Positions = append(ci.Positions, c04Pos{p, t})
		kinds := append([]string(nil), c04Any...)
		named := namedOf(t)
		nullable := !strings.HasSuffix(t, "!")
		switch {
		case isListType(t):
			kinds = append(kinds, c04List...)
			if et := elemType(t); !isListType(et) {
				// a list of abstract / isTypeOf-guarded objects: the type callbacks
				// are consulted per element with the field's info
				if c04AbsNames[named] {
					kinds = append(kinds, FRTNil, FRTWrong, FRTOther, FRTPanic)
					kinds = append(kinds, c04IsType...)
				} else if c04IsTypeNames[named] {
					kinds = append(kinds, c04IsType...)
				}
			}
			if et := elemType(t); (named == "Kind" || named == "Stamp") && !isListType(et) && !strings.HasSuffix(et, "!") {
				kinds = append(kinds, c04LeafList...)
			}
		case c04LeafNames[named]:
			if nullable {
				kinds = append(kinds, c04Leaf...)
				if named == "Stamp" {
					kinds = append(kinds, c04Stamp...)
				}
			}
		case c04AbsNames[named]:
			kinds = append(kinds, c04Abs...)
			kinds = append(kinds, c04IsType...)
		case c04IsTypeNames[named]:
			kinds = append(kinds, c04IsType...)
		}
		ci.Kinds[p] = kinds
	}
	c04Cache[cacheKey] = ci
	return ci
}

func (c04) EnumSize(tier string) int {
	n := 0
	for _, q := range c04Queries {
		ci := c04Analyse(q)
		for _, p := range ci.Positions {
			n += len(ci.Kinds[p.Path])
		}
	}
	return n * 3 // do, prepared plan, normalising cache
}

func c04FaultKey(kind, path string) string {
	switch kind {
	case FRTNil, FRTWrong, FRTOther, FRTPanic:
		return "RT@" + path
	case FITFalse, FITPanic:
		return "IT@" + path
	}
	return "R@" + path
}

func (p c04) Gen(seed uint64, enum int, tier string) json.RawMessage {
	s := C04Scn{Faults: map[string]string{}}
	if enum >= 0 {
		s.Entry = []string{"do", "plan", "cache-norm"}[enum%3]
		enum /= 3
		for _, q := range c04Queries {
			ci := c04Analyse(q)
			for _, pos := range ci.Positions {
				ks := ci.Kinds[pos.Path]
				if enum < len(ks) {
					s.Query = q
					s.Faults[c04FaultKey(ks[enum], pos.Path)] = ks[enum]
					// deferred list elements are interesting with deferred values beneath them
					s.AllThunk = ks[enum] == FElemThunk
					s.Order = uint32(enum % 4)
					s.Salt = uint64(enum)
					return mustJSON(s)
				}
				enum -= len(ks)
			}
		}
		panic("c04: enum index out of range")
	}
	r := NewRNG(seed)
	s.Query = c04Queries[r.Intn(len(c04Queries))]
	if r.Chance(45) {
		// a generated document instead of a pool document
		gd := GenQueryDoc(r, c04GenWorld(), 6+r.Intn(30), true)
		s.Query, s.Vars, s.Generated = gd.Query, gd.Vars, true
		c04Generated[s.Query] = true
		c04Vars[s.Query] = gd.Vars
	}
	ci := c04Analyse(s.Query)
	if ci == nil || len(ci.Positions) == 0 {
		return mustJSON(s) // rejected (Run reports the probe) or nothing to fail
	}
	s.Entry = []string{"do", "plan", "cache-norm"}[r.Intn(3)]
	s.Order = uint32(r.Intn(4))
	s.Salt = r.Uint64() % 1000
	n := 1 + r.Intn(4)
	for i := 0; i < n; i++ {
		pos := ci.Positions[r.Intn(len(ci.Positions))]
		ks := ci.Kinds[pos.Path]
		k := ks[r.Intn(len(ks))]
		s.Faults[c04FaultKey(k, pos.Path)] = k
	}
	if r.Chance(20) {
		// the same outcome at every index of a list (one batch failure seen by
		// every element): all positions that differ only in list indices
		var indexed []c04Pos
		for _, pos := range ci.Positions {
			if c04Shape(pos.Path) != pos.Path {
				indexed = append(indexed, pos)
			}
		}
		if len(indexed) > 0 {
			pick := indexed[r.Intn(len(indexed))]
			k := []string{FSharedErr, FSentinelErr, FErr, FPanicErr, FNil, FThunkErr}[r.Intn(6)]
			for _, pos := range indexed {
				if c04Shape(pos.Path) == c04Shape(pick.Path) {
					s.Faults[c04FaultKey(k, pos.Path)] = k
				}
			}
		}
	}
	s.AllThunk = r.Chance(10)
	// sometimes a background of successful thunks under the faults
	if r.Chance(25) {
		for _, pos := range ci.Positions {
			if _, ok := s.Faults["R@"+pos.Path]; !ok && r.Chance(30) {
				s.Faults["R@"+pos.Path] = FThunk
			}
		}
	}
	return mustJSON(s)
}

// c04Shape replaces the list indices of a path by "#".
func c04Shape(p string) string {
	segs := splitPath(p)
	for i, sg := range segs {
		if _, err := strconv.Atoi(sg); err == nil {
			segs[i] = "#"
		}
	}
	return strings.Join(segs, ".")
}

func (c04) Shrink(scn json.RawMessage) []json.RawMessage {
	var s C04Scn
	json.Unmarshal(scn, &s)
	var out []json.RawMessage
	for _, k := range SortedKeys(s.Faults) {
		t := s
		t.Faults = map[string]string{}
		for k2, v := range s.Faults {
			if k2 != k {
				t.Faults[k2] = v
			}
		}
		out = append(out, mustJSON(t))
	}
	if s.Order != 0 {
		t := s
		t.Order = 0
		out = append(out, mustJSON(t))
	}
	return out
}

// ---- reference model -------------------------------------------------------

func splitPath(p string) []string {
	if p == "" {
		return nil
	}
	return strings.Split(p, ".")
}

func parentPath(p string) string {
	i := strings.LastIndexByte(p, '.')
	if i < 0 {
		return ""
	}
	return p[:i]
}

// typeOfPos returns the declared type of a response position (field position or
// list element position).
func (ci *c04Info) typeOfPos(p string) string {
	if t, ok := ci.Types[p]; ok {
		return t
	}
	segs := splitPath(p)
	if len(segs) == 0 {
		return ""
	}
	if _, err := strconv.Atoi(segs[len(segs)-1]); err == nil {
		return elemType(ci.typeOfPos(parentPath(p)))
	}
	return ""
}

// nullTarget returns the position that becomes null when position p fails:
// the nearest nullable position at or above p ("" = data itself).
func (ci *c04Info) nullTarget(p string) string {
	cur := p
	for cur != "" {
		t := ci.typeOfPos(cur)
		if t == "" {
			return "?" + cur
		}
		if !strings.HasSuffix(t, "!") {
			return cur
		}
		cur = parentPath(cur)
	}
	return ""
}

func deepCopy(v interface{}) interface{} {
	switch x := v.(type) {
	case map[string]interface{}:
		m := make(map[string]interface{}, len(x))
		for k, e := range x {
			m[k] = deepCopy(e)
		}
		return m
	case []interface{}:
		l := make([]interface{}, len(x))
		for i, e := range x {
			l[i] = deepCopy(e)
		}
		return l
	}
	return v
}

// setAt sets the value at path p inside tree to v; returns false if the path
// does not exist (already below a null).
func setAt(tree interface{}, p string, v interface{}) (interface{}, bool) {
	segs := splitPath(p)
	if len(segs) == 0 {
		return v, true
	}
	cur := tree
	for i, s := range segs {
		last := i == len(segs)-1
		switch c := cur.(type) {
		case map[string]interface{}:
			if _, ok := c[s]; !ok {
				return tree, false
			}
			if last {
				c[s] = v
				return tree, true
			}
			cur = c[s]
		case []interface{}:
			idx, err := strconv.Atoi(s)
			if err != nil || idx < 0 || idx >= len(c) {
				return tree, false
			}
			if last {
				c[idx] = v
				return tree, true
			}
			cur = c[idx]
		default:
			return tree, false
		}
	}
	return tree, false
}

// getAt walks tree along p. It returns (value, reachedNull, ok): reachedNull is
// true if a null was met at or before the end of the path.
func getAt(tree interface{}, p []interface{}) (interface{}, bool, bool) {
	cur := tree
	if cur == nil {
		return nil, true, true
	}
	for _, s := range p {
		switch c := cur.(type) {
		case map[string]interface{}:
			k, ok := s.(string)
			if !ok {
				return nil, false, false
			}
			v, ok := c[k]
			if !ok {
				return nil, false, false
			}
			cur = v
		case []interface{}:
			f, ok := s.(float64)
			if !ok || int(f) < 0 || int(f) >= len(c) {
				return nil, false, false
			}
			cur = c[int(f)]
		default:
			return nil, false, false
		}
		if cur == nil {
			return nil, true, true
		}
	}
	return cur, false, true
}

const c04Wild = "\x00WILDCARD:"

// leafConforms reports whether v is null or a legal serialisation of the named leaf type.
func leafConforms(named string, v interface{}) bool {
	if v == nil {
		return true
	}
	switch named {
	case "String", "ID", "Stamp":
		_, ok := v.(string)
		return ok
	case "Int":
		f, ok := v.(float64)
		return ok && f == float64(int64(f)) && f >= -2147483648 && f <= 2147483647
	case "Float":
		_, ok := v.(float64)
		return ok
	case "Boolean":
		_, ok := v.(bool)
		return ok
	case "Kind":
		s, ok := v.(string)
		return ok && (s == "ALPHA" || s == "BETA" || s == "GAMMA")
	}
	return false
}

// matchTree compares got with want, where want may contain wildcard markers for
// soft-fault leaf positions. Returns the JSON pointer of the first difference.
func matchTree(got, want interface{}, at string) string {
	if ws, ok := want.(string); ok && strings.HasPrefix(ws, c04Wild) {
		if !leafConforms(ws[len(c04Wild):], got) {
			return fmt.Sprintf("%s: %v is neither null nor a legal %s", at, got, ws[len(c04Wild):])
		}
		return ""
	}
	switch w := want.(type) {
	case map[string]interface{}:
		g, ok := got.(map[string]interface{})
		if !ok {
			return fmt.Sprintf("%s: expected an object, got %v", at, brief(got))
		}
		for _, k := range SortedKeys(w) {
			gv, ok := g[k]
			if !ok {
				return fmt.Sprintf("%s/%s: key missing", at, k)
			}
			if d := matchTree(gv, w[k], at+"/"+k); d != "" {
				return d
			}
		}
		for _, k := range SortedKeys(g) {
			if _, ok := w[k]; !ok {
				return fmt.Sprintf("%s/%s: unexpected key", at, k)
			}
		}
		return ""
	case []interface{}:
		g, ok := got.([]interface{})
		if !ok {
			return fmt.Sprintf("%s: expected a list, got %v", at, brief(got))
		}
		if len(g) != len(w) {
			return fmt.Sprintf("%s: list length %d, expected %d", at, len(g), len(w))
		}
		for i := range w {
			if d := matchTree(g[i], w[i], fmt.Sprintf("%s/%d", at, i)); d != "" {
				return d
			}
		}
		return ""
	}
	if !reflect.DeepEqual(got, want) {
		return fmt.Sprintf("%s: got %v, expected %v", at, brief(got), brief(want))
	}
	return ""
}

func brief(v interface{}) string {
	b, _ := json.Marshal(v)
	if len(b) > 120 {
		return string(b[:120]) + "..."
	}
	return string(b)
}

func pathToJSON(p string) []interface{} {
	var out []interface{}
	for _, s := range splitPath(p) {
		if n, err := strconv.Atoi(s); err == nil {
			out = append(out, float64(n))
		} else {
			out = append(out, s)
		}
	}
	return out
}

func isUnder(p, anc string) bool {
	return anc == "" || p == anc || strings.HasPrefix(p, anc+".")
}

func (c04) Run(t TestingT, scn json.RawMessage, tape *Tape) *Outcome {
	var sc C04Scn
	if err := json.Unmarshal(scn, &sc); err != nil {
		return &Outcome{Infra: "bad scenario: " + err.Error()}
	}
	o := &Outcome{}
	if sc.Generated {
		c04Generated[sc.Query] = true
		c04Vars[sc.Query] = normaliseJSONInts(sc.Vars).(map[string]interface{})
		if len(c04Cache) > 4000 {
			c04Cache = map[string]*c04Info{}
		}
	}
	ci := c04Analyse(sc.Query)
	if ci == nil {
		o.Probe("generated-document-rejected")
		o.TraceHash = "rejected"
		o.Sample = map[string]interface{}{"scenario": sc, "baseline": c04Rejected[sc.Query]}
		if !strings.Contains(c04Rejected[sc.Query], `"path"`) {
			// not a field error of the fault-free run: the generator claims
			// validity by construction, so this is harness trouble
			o.Infra = "generated document rejected by parse/validation: " + sc.Query + " => " + c04Rejected[sc.Query]
		}
		return o
	}
	verifmo.Set(verifmo.Sorted, 0)
	w := NewWorld("A")
	verifmo.Set(sc.Order, sc.Salt)
	defer verifmo.Set(verifmo.Sorted, 0)
	rc := &ReqCtx{Task: "c1", W: w, Faults: sc.Faults, AllThunk: sc.AllThunk, RootTok: Tok{T: ci.Root}}
	ctx := WithReq(context.Background(), rc)
	var res *graphql.Result
	var escaped interface{}
	func() {
		defer func() {
			if r := recover(); r != nil {
				escaped = r
			}
		}()
		vars := c04Vars[sc.Query]
		if sc.Entry == "cache-norm" {
			// through the normalising plan cache (second Get = hit)
			cache := graphql.NewPlanCache(graphql.PlanCacheOptions{Normalize: true})
			cache.Get(&w.Schema, sc.Query, "")
			pr := cache.Get(&w.Schema, sc.Query, "")
			if pr.Plan == nil {
				res = &graphql.Result{Errors: pr.Errors}
			} else {
				res = graphql.ExecutePlan(pr.Plan, graphql.ExecuteParams{Schema: w.Schema, Args: mergeArgs(vars, pr.SynthArgs), Context: ctx})
			}
		} else if sc.Entry == "plan" {
			doc, _ := parseDoc(sc.Query)
			plan, err := graphql.PlanQuery(&w.Schema, doc, "")
			if err != nil {
				panic("plan: " + err.Error())
			}
			res = graphql.ExecutePlan(plan, graphql.ExecuteParams{Schema: w.Schema, Args: vars, Context: ctx})
		} else {
			res = graphql.Do(graphql.Params{Schema: w.Schema, RequestString: sc.Query, VariableValues: vars, Context: ctx})
		}
	}()
	log, fired, _, _ := rc.Snapshot()
	rc.mu.Lock()
	firedAt := append([]string(nil), rc.FiredAt...)
	rc.mu.Unlock()
	for k, v := range fired {
		o.Fire(k, v)
	}
	h := fnv.New64a()
	fmt.Fprintf(h, "%s|%s", scn, strings.Join(log, "\n"))
	o.TraceHash = fmt.Sprintf("%016x", h.Sum64())
	o.Steps = len(log)
	o.Trace = log
	if escaped != nil {
		o.Violate("C04/escaped-panic", "a panic escaped the entry point: %v", escaped)
		return o
	}
	raw := MarshalResult(res)
	if strings.HasPrefix(raw, "!marshal") {
		o.Violate("C04/unserialisable", "result cannot be marshalled: %s", raw)
		return o
	}
	var dec struct {
		Data   interface{} `json:"data"`
		Errors []struct {
			Message string        `json:"message"`
			Path    []interface{} `json:"path"`
		} `json:"errors"`
	}
	json.Unmarshal([]byte(raw), &dec)

	// a single planned fault sits on a callback that the fault-free run of this
	// request invoked at that position; up to there the two runs are the same
	// run, so the callback must be consulted again (a guard that is skipped
	// would otherwise go unnoticed: the model acts on fired faults only)
	if len(sc.Faults) == 1 && len(firedAt) == 0 && !c04Generated[sc.Query] {
		for k, f := range sc.Faults {
			// (a position declared with a concrete object type that has an
			// IsTypeOf function is guarded by it whatever is selected beneath:
			// known from the world, not from the fault-free run)
			_, fpath, _ := strings.Cut(k, "@")
			ftyp := ci.typeOfPos(fpath)
			guarded := strings.HasPrefix(k, "IT@") && ftyp != "" && !isListType(ftyp) && c04IsTypeNames[namedOf(ftyp)]
			// (likewise a position declared with the interface that has a type resolver)
			guarded = guarded || (strings.HasPrefix(k, "RT@") && ftyp != "" && !isListType(ftyp) && namedOf(ftyp) == "Node")
			if ci.Consulted[k] || guarded {
				o.Violate("C04/callback-not-consulted", "the only planned fault %s=%s did not fire: the type callback that the fault-free run consulted at that position was not consulted in this run\n got: %s", k, f, raw)
			}
		}
	}
	// ---- model: apply every fired fault to the baseline
	want := deepCopy(ci.Baseline)
	type failure struct {
		path, kind, target string
		deferred           bool
		needErr            bool
	}
	var fails []failure
	nonTrivial := false
	for _, fa := range firedAt {
		kind, path, _ := strings.Cut(fa, "@")
		typ := ci.typeOfPos(path)
		named := namedOf(typ)
		hard, needErr, deferred := false, true, false
		switch kind {
		case FErr, FValErr, FPanicErr, FPanicStr, FPanicInt, FNotIter, FRTNil, FRTWrong, FRTOther, FRTPanic, FITFalse, FITPanic, FSerPanic, FForeignErr, FSentinelErr, FSharedErr:
			hard = true
		case "T:" + FErr, "T:" + FPanicErr, "T:" + FValErr:
			hard, deferred = true, true
		case FThunkBad:
			hard, deferred = true, true
		case FNil, FTypedNil, "T:" + FNil:
			hard = true
			deferred = kind == "T:"+FNil
			needErr = strings.HasSuffix(typ, "!")
		case FSerNil:
			hard, needErr = true, false
		case FWrongKind:
			switch {
			case isListType(typ):
				hard = true
			case c04AbsNames[named]:
				hard = true
			case c04LeafNames[named]:
				// soft: null or a conformant leaf
				want, _ = setAt(want, path, c04Wild+named)
				nonTrivial = true
			}
		case FElemPanic:
			path = path + ".1"
			if _, _, ok := getAt(ci.Baseline, pathToJSON(path)); ok {
				hard = true
			}
		case FNaN, FBigInt, FBigIntStr, FBadEnum:
			if c04LeafNames[named] && !isListType(typ) {
				want, _ = setAt(want, path, c04Wild+named)
				nonTrivial = true
			}
		}
		if hard && isListType(typ) && (strings.HasPrefix(kind, "rt_") || strings.HasPrefix(kind, "it_")) {
			// the type resolver / isTypeOf of a list field is consulted once per
			// element (with the field's info): every element fails
			if l, _, ok := getAt(ci.Baseline, pathToJSON(path)); ok {
				if ll, isList := l.([]interface{}); isList {
					for i := range ll {
						ep := path + "." + strconv.Itoa(i)
						fails = append(fails, failure{path: ep, kind: kind, target: ci.nullTarget(ep), needErr: true})
					}
				}
			}
			nonTrivial = true
			hard = false
		}
		if hard {
			fails = append(fails, failure{path: path, kind: kind, target: ci.nullTarget(path), deferred: deferred, needErr: needErr})
			nonTrivial = true
		}
	}
	o.Nontrivial = nonTrivial
	for _, f := range fails {
		if strings.HasPrefix(f.target, "?") {
			return &Outcome{Infra: "c04 model: unknown type for position " + f.target}
		}
		if f.target == "" {
			want = nil
		} else if want != nil {
			want, _ = setAt(want, f.target, nil)
		}
		if f.target != f.path {
			o.Probe("null-propagated")
		}
		if f.target == "" {
			o.Probe("data-nulled")
		}
	}
	o.Sample = map[string]interface{}{"scenario": sc, "fired": firedAt, "result": raw}

	// ---- oracle
	if d := matchTree(dec.Data, want, ""); d != "" {
		// the one recorded defect: a failing deferred value in a non-null
		// position unwinds to the root instead of the nearest nullable ancestor
		explained := false
		if dec.Data == nil && want != nil {
			// positions whose value was deferred in this run
			var thunks []string
			for _, fa := range firedAt {
				kind, path, _ := strings.Cut(fa, "@")
				if kind == FThunk || kind == FThunk2 || deferredFK[kind] || kind == FElemThunk {
					thunks = append(thunks, path)
				}
				if kind == FElemThunk {
					// every element position of that list was deferred
					if l, _, ok := getAt(ci.Baseline, pathToJSON(path)); ok {
						if ll, isList := l.([]interface{}); isList {
							for i := range ll {
								thunks = append(thunks, path+"."+strconv.Itoa(i))
							}
						}
					}
				}
			}
			for _, f := range fails {
				for _, tp := range thunks {
					// the failure has to travel upwards through the deferred position tp
					if isUnder(f.path, tp) && isUnder(tp, f.target) && tp != f.target {
						explained = true
					}
				}
			}
		}
		wantJSON, _ := json.Marshal(want)
		if explained {
			o.Violate("C04/deferred-nonnull-nulls-data", "a deferred value failing in a non-null position nulled all of data instead of the nearest nullable ancestor; fired=%v\n got: %s\nwant: %s", firedAt, raw, strings.ReplaceAll(string(wantJSON), c04Wild, "?"))
		} else {
			o.Violate("C04/data-mismatch", "data differs from the null-propagation model at %s; fired=%v\n got: %s\nwant: %s", d, firedAt, raw, strings.ReplaceAll(string(wantJSON), c04Wild, "?"))
		}
		return o
	}
	// data contains only (and all of) the selected response keys
	if doc, err := parseDoc(sc.Query); err == nil {
		rc.mu.Lock()
		typeAt := map[string]string{}
		for k, v := range rc.TypeAt {
			typeAt[k] = v
		}
		rc.mu.Unlock()
		keyVars := map[string]interface{}{"no": false, "yes": true} // supplied or defaulted: same values
		for k, v := range c04Vars[sc.Query] {
			keyVars[k] = v
		}
		if msg := CheckSelectedKeys(doc, "", keyVars, ci.Root, dec.Data, typeAt, w.Possible); msg != "" {
			o.Violate("C04/unselected-or-missing-key", "%s\n response: %s", msg, raw)
		}
	}
	// every hard failure has an error addressing the failed field, unless the
	// field lies inside a subtree nulled by another failure
	// When a failure unwinds through a deferred position to the root (the
	// recorded finding F-C04-3 - here with the same end result as the model,
	// data = null), forcing stops there: deferred values not yet forced never
	// run, so no error can be demanded for them.
	forcingAborted := false
	if dec.Data == nil {
		var thunks []string
		for _, fa := range firedAt {
			kind, path, _ := strings.Cut(fa, "@")
			if kind == FThunk || kind == FThunk2 || deferredFK[kind] || kind == FElemThunk {
				thunks = append(thunks, path)
			}
		}
		for _, f := range fails {
			for _, tp := range thunks {
				if isUnder(f.path, tp) && isUnder(tp, f.target) && tp != f.target {
					forcingAborted = true
				}
			}
		}
	}
	for i, f := range fails {
		if !f.needErr {
			continue
		}
		if forcingAborted && (f.deferred || c04UnderDeferred(f.path, firedAt)) {
			continue
		}
		// the error may be missing only if the field lies inside a subtree that an
		// EARLIER failure had already nulled (errors recorded before a later
		// failure nulls the subtree are kept)
		shadowed := false
		for j, g := range fails {
			// a deferred value fails when it is forced, i.e. after every
			// failure that happened while the tree was being built
			earlier := (!g.deferred && f.deferred) || (g.deferred == f.deferred && j < i)
			if earlier && g.path != f.path && isUnder(f.path, g.target) {
				shadowed = true
			}
		}
		found := false
		wantPath := pathToJSON(f.path)
		for _, e := range dec.Errors {
			if reflect.DeepEqual(e.Path, wantPath) {
				found = true
			}
		}
		if !found && !shadowed {
			o.Violate("C04/missing-error", "no error with path %v for the failed field (fault %s); errors: %s", wantPath, f.kind, raw)
		}
	}
	// every error path addresses a position that is null or below a null
	for _, e := range dec.Errors {
		if len(e.Path) == 0 {
			continue
		}
		_, reachedNull, ok := getAt(dec.Data, e.Path)
		if ok && !reachedNull {
			o.Violate("C04/error-path-not-null", "error %q has path %v but data there is not null: %s", e.Message, e.Path, raw)
		}
	}
	_ = sort.Strings
	return o
}

// c04UnderDeferred reports whether path lies at or below a position whose value
// was deferred in this run.
func c04UnderDeferred(path string, firedAt []string) bool {
	for _, fa := range firedAt {
		kind, tp, _ := strings.Cut(fa, "@")
		if (kind == FThunk || kind == FThunk2 || deferredFK[kind] || kind == FElemThunk) && isUnder(path, tp) {
			return true
		}
	}
	return false
}

var c04GenW *World

func c04GenWorld() *World {
	if c04GenW == nil {
		c04GenW = NewWorld("A")
	}
	return c04GenW
}

// normaliseJSONInts turns integral float64 values (JSON decoding) back into ints.
func normaliseJSONInts(v interface{}) interface{} {
	switch x := v.(type) {
	case map[string]interface{}:
		out := map[string]interface{}{}
		for k, e := range x {
			out[k] = normaliseJSONInts(e)
		}
		return out
	case []interface{}:
		out := make([]interface{}, len(x))
		for i, e := range x {
			out[i] = normaliseJSONInts(e)
		}
		return out
	case float64:
		if x == float64(int(x)) {
			return int(x)
		}
	}
	return v
}
