# per-property configuration of bin/check
PROPS = {
    "C17": dict(level="fault_enumeration", race=False,
                quick=dict(enum=True, seeds=3000), thorough=dict(enum=True, seconds=300),
                rule="one evaluation = one request executed with 1-3 instrumented extensions under one panic plan and one map-order "
                     "policy; the single-panic placements (hook x panic value x request outcome x extension position x entry point) "
                     "are enumerated completely, multi-panic plans are sampled; non-trivial = a panic fired or more than one "
                     "extension; distinct = distinct (scenario, hook event log) hashes"),
    "C13": dict(level="exploration", race=False,
                quick=dict(enum=False, seeds=4000), thorough=dict(enum=False, seconds=300),
                rule="one evaluation = one generated mutation (2-6 top-level keys, fragments, merged duplicates, nested selections) "
                     "executed under one deferral/fault plan and one map-order policy; non-trivial = deferred work ran and at least two "
                     "top-level fields executed; distinct = distinct (scenario, resolver/thunk event log) hashes"),
    "C04": dict(level="fault_enumeration", race=False,
                quick=dict(enum=True, seeds=4000), thorough=dict(enum=True, seconds=420),
                rule="one evaluation = one request executed under one fault plan (1-4 adversarial callback outcomes keyed by response "
                     "path) and one map-order policy, compared with the null-propagation model applied to the fault-free run; every single "
                     "(position, applicable fault kind, entry point) placement over the request pool is enumerated completely, multi-fault "
                     "plans are sampled; non-trivial = at least one fault fired that the model acts on; distinct = distinct (scenario, "
                     "callback event log) hashes"),
    "C12": dict(level="exploration", race=False,
                quick=dict(enum=True, seeds=3000), thorough=dict(enum=True, seconds=300),
                rule="one evaluation = one request (valid, invalid, failing at execution, introspection) executed or validated under one "
                     "map-iteration-order policy, on a schema built under another policy, after a seeded history of other requests, "
                     "through Do / a shared plan cache / a prepared plan, and byte-compared with its reference response; request x 12 "
                     "policies x {execute, rebuild schema, validate} is enumerated, histories are sampled; non-trivial = the library took "
                     "at least one multi-key map-iteration decision under a non-default policy or after a history; distinct = distinct "
                     "(scenario, number of order decisions) hashes"),
    "C06": dict(level="exploration", race=False, race_thorough=True,
                quick=dict(enum=True, seeds=4000), thorough=dict(enum=True, seconds=420),
                rule="one evaluation = one history of Get+ExecutePlan / plan re-execution / Reset / schema replacement over a pool of "
                     "near-collision requests under seeded cache knobs (MaxEntries 1-4 or default, Normalize, tiny MaxQueryBytes, nil "
                     "cache); every ordered pair of pool requests (a, b, a) x Normalize on/off is enumerated, longer histories are "
                     "sampled; after every operation the response must equal graphql.Do from scratch and the entry count must respect "
                     "the configured bound; non-trivial = at least one cache hit or more than two operations; distinct = distinct scenarios"),
    "C15": dict(level="exploration", race=False, race_thorough=True,
                quick=dict(enum=True, seeds=4000), thorough=dict(enum=True, seconds=420),
                rule="one evaluation = one simulated subscription: producer, library forwarder, per-event executors, consumer (prompt / "
                     "slow / stops) and the cancellation action interleaved by the seeded scheduler over 0-5 events (ok / nullable failure "
                     "/ non-null failure), plus subscribe-phase faults; non-trivial = at least one result was delivered or the context "
                     "was cancelled; distinct = distinct scheduler trace hashes"),
    "C07": dict(level="exploration", race=True,
                quick=dict(enum=False, seeds=1500, race_seeds=320), thorough=dict(enum=False, seconds=600),
                rule="one evaluation = one simulated run of 2-4 client tasks (1-4 operations each: Do, PlanCache.Get+ExecutePlan, "
                     "ExecutePlan on a shared prepared plan, ValidateDocument, Reset) on one cold schema value, shared plans and a shared "
                     "plan cache, interleaved by the seeded scheduler at client steps, instrumented callbacks and the library's yield "
                     "hooks; plain and race builds; non-trivial = at least one context switch between tasks; distinct = distinct "
                     "scheduler trace hashes"),
    "C20": dict(level="exploration", race=False, race_thorough=True,
                quick=dict(enum=False, seeds=3000), thorough=dict(enum=False, seconds=420),
                rule="one evaluation = one plan (prepared directly, through the plain or the normalising cache, or re-planned per call) "
                     "executed 1-9 times by 1-3 interleaved clients, each execution with its own root token, variables, runtime-type "
                     "variant and hostile-resolver faults; every resolver / type resolver / isTypeOf invocation checks its parameters "
                     "locally and the per-path arguments and the response are compared with the same execution run alone; non-trivial = "
                     "at least two executions; distinct = distinct scheduler trace hashes"),
}
