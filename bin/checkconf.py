# per-property configuration of bin/check
PROPS = {
    "C17": dict(level="fault_enumeration", race=False,
                quick=dict(enum=True, seeds=3000), thorough=dict(enum=True, seconds=300),
                rule="one evaluation = one request executed with 1-3 instrumented extensions under one panic plan and one map-order "
                     "policy; the single-panic placements (hook x panic value x request outcome x extension position x entry point) "
                     "are enumerated completely, multi-panic plans are sampled; non-trivial = a panic fired or more than one "
                     "extension; distinct = distinct (scenario, hook event log) hashes"),
    "C13": dict(level="exploration", race=False,
                quick=dict(enum=False, seeds=4000), thorough=dict(enum=False, seconds=300),
                rule="one evaluation = one generated mutation (2-6 top-level keys, fragments, merged duplicates, nested selections) "
                     "executed under one deferral/fault plan and one map-order policy; non-trivial = deferred work ran and at least two "
                     "top-level fields executed; distinct = distinct (scenario, resolver/thunk event log) hashes"),
}
