# per-property configuration of bin/check
PROPS = {
    "C17": dict(level="fault_enumeration", race=False,
                quick=dict(enum=True, seeds=3000), thorough=dict(enum=True, seconds=300),
                rule="one evaluation = one request executed with 1-3 instrumented extensions under one panic plan and one map-order "
                     "policy; the single-panic placements (hook x panic value x request outcome x extension position x entry point) "
                     "are enumerated completely, multi-panic plans are sampled; non-trivial = a panic fired or more than one "
                     "extension; distinct = distinct (scenario, hook event log) hashes"),
}
