// Command maporder rewrites every `for ... range <map>` statement of the Go
// packages under a scratch copy of graphql-go/graphql so that the iteration
// order is decided by package verifmo (a seam the simulator owns) instead of by
// the Go runtime's per-iteration random seed.
//
//	for k, v := range X { B }
//
// becomes (on one line, so line numbers are preserved)
//
//	{ m := X; for _, k_ := range verifmo.Keys(m, "file:line") { v_, ok := m[k_]; if !ok { continue }; k, v := k_, v_; { B } } }
//
// which keeps the specified semantics of range over a map: X evaluated once,
// entries deleted during the iteration are not produced, entries are read at
// the time they are produced. Entries *added* during iteration may or may not be
// produced according to the spec; here they are not.
//
// Usage: maporder -dir <module root> [-tags verif] [-json report.json]
// The tool must be started with its working directory inside the module (the
// "source" importer resolves imports relative to the working directory).
package main

import (
	"encoding/json"
	"flag"
	"fmt"
	"go/ast"
	"go/build"
	"go/importer"
	"go/parser"
	"go/token"
	"go/types"
	"os"
	"path/filepath"
	"sort"
	"strings"
)

type site struct {
	File    string `json:"file"`
	Line    int    `json:"line"`
	KeyType string `json:"key_type"`
	Done    bool   `json:"rewritten"`
	Why     string `json:"why,omitempty"`
}

type edit struct {
	off  int // byte offset
	del  int // bytes to delete
	text string
}

func main() {
	dir := flag.String("dir", ".", "module root of the scratch copy")
	tags := flag.String("tags", "verif", "comma separated build tags")
	modPath := flag.String("mod", "github.com/graphql-go/graphql", "module path")
	report := flag.String("json", "", "write a JSON report here")
	flag.Parse()

	root, err := filepath.Abs(*dir)
	must(err)
	must(os.Chdir(root))

	ctx := build.Default
	ctx.BuildTags = strings.Split(*tags, ",")

	var pkgDirs []string
	must(filepath.Walk(root, func(p string, info os.FileInfo, err error) error {
		if err != nil {
			return err
		}
		if info.IsDir() {
			base := filepath.Base(p)
			if p != root && (strings.HasPrefix(base, ".") || base == "examples" || base == "testdata" || base == "verifmo" || base == "benchutil" || base == "testutil") {
				return filepath.SkipDir
			}
			pkgDirs = append(pkgDirs, p)
		}
		return nil
	}))

	var sites []site
	nRewritten, nLeft := 0, 0
	for _, pd := range pkgDirs {
		ents, err := os.ReadDir(pd)
		must(err)
		var names []string
		for _, e := range ents {
			n := e.Name()
			if e.IsDir() || !strings.HasSuffix(n, ".go") || strings.HasSuffix(n, "_test.go") {
				continue
			}
			ok, err := ctx.MatchFile(pd, n)
			must(err)
			if ok {
				names = append(names, n)
			}
		}
		if len(names) == 0 {
			continue
		}
		sort.Strings(names)
		fset := token.NewFileSet()
		var files []*ast.File
		srcs := map[string][]byte{}
		for _, n := range names {
			full := filepath.Join(pd, n)
			b, err := os.ReadFile(full)
			must(err)
			srcs[full] = b
			f, err := parser.ParseFile(fset, full, b, parser.ParseComments)
			must(err)
			files = append(files, f)
		}
		rel, _ := filepath.Rel(root, pd)
		ipath := *modPath
		if rel != "." {
			ipath = *modPath + "/" + filepath.ToSlash(rel)
		}
		info := &types.Info{Types: map[ast.Expr]types.TypeAndValue{}}
		conf := types.Config{Importer: importer.ForCompiler(fset, "source", nil)}
		if _, err := conf.Check(ipath, fset, files, info); err != nil {
			fmt.Fprintf(os.Stderr, "maporder: type check of %s failed: %v\n", ipath, err)
			os.Exit(2)
		}
		for _, f := range files {
			fname := fset.Position(f.Pos()).Filename
			src := srcs[fname]
			var edits []edit
			counter := 0
			labels := map[ast.Stmt]*ast.LabeledStmt{}
			ast.Inspect(f, func(n ast.Node) bool {
				if ls, ok := n.(*ast.LabeledStmt); ok {
					labels[ls.Stmt] = ls
				}
				return true
			})
			ast.Inspect(f, func(n ast.Node) bool {
				rs, ok := n.(*ast.RangeStmt)
				if !ok {
					return true
				}
				tv, ok := info.Types[rs.X]
				if !ok {
					return true
				}
				mt, ok := tv.Type.Underlying().(*types.Map)
				if !ok {
					return true
				}
				pos := fset.Position(rs.Pos())
				relFile, _ := filepath.Rel(root, pos.Filename)
				s := site{File: filepath.ToSlash(relFile), Line: pos.Line, KeyType: mt.Key().String()}
				if !sortableKey(mt.Key()) {
					s.Why = "key type not orderable by verifmo"
					sites = append(sites, s)
					nLeft++
					return true
				}
				counter++
				id := fmt.Sprintf("%d", counter)
				mo, mk, mv, mok := "__mo"+id, "__mk"+id, "__mv"+id, "__mok"+id
				xText := string(src[fset.Position(rs.X.Pos()).Offset:fset.Position(rs.X.End()).Offset])
				keyName, valName := exprText(src, fset, rs.Key), exprText(src, fset, rs.Value)
				var lhs, rhs []string
				if keyName != "" && keyName != "_" {
					lhs = append(lhs, keyName)
					rhs = append(rhs, mk)
				}
				if valName != "" && valName != "_" {
					lhs = append(lhs, valName)
					rhs = append(rhs, mv)
				}
				assign := "_ = " + mv + "; "
				if len(lhs) > 0 {
					tok := ":="
					if rs.Tok == token.ASSIGN {
						tok = "="
					}
					assign = strings.Join(lhs, ", ") + " " + tok + " " + strings.Join(rhs, ", ") + "; "
					if len(lhs) == 1 && lhs[0] == keyName {
						assign += "_ = " + mv + "; "
					}
				}
				label := ""
				if ls, ok := labels[ast.Stmt(rs)]; ok {
					// blank the outer label and re-attach it to the inner loop
					lo := fset.Position(ls.Pos()).Offset
					hi := fset.Position(ls.Colon).Offset + 1
					edits = append(edits, edit{off: lo, del: hi - lo, text: ""})
					label = ls.Label.Name + ": "
				}
				siteName := fmt.Sprintf("%s:%d", s.File, s.Line)
				head := fmt.Sprintf("{ %s := %s; %sfor _, %s := range verifmo.Keys(%s, %q) { %s, %s := %s[%s]; if !%s { continue }; %s{",
					mo, xText, label, mk, mo, siteName, mv, mok, mo, mk, mok, assign)
				start := fset.Position(rs.Pos()).Offset
				lbrace := fset.Position(rs.Body.Lbrace).Offset
				rbrace := fset.Position(rs.Body.Rbrace).Offset
				edits = append(edits, edit{off: start, del: lbrace + 1 - start, text: head})
				edits = append(edits, edit{off: rbrace, del: 1, text: "} } }"})
				s.Done = true
				sites = append(sites, s)
				nRewritten++
				return true
			})
			if len(edits) == 0 {
				continue
			}
			sort.Slice(edits, func(i, j int) bool { return edits[i].off > edits[j].off })
			out := append([]byte(nil), src...)
			for _, e := range edits {
				out = append(out[:e.off], append([]byte(e.text), out[e.off+e.del:]...)...)
			}
			out = addImport(out, *modPath+"/verifmo")
			must(os.WriteFile(fname, out, 0o644))
		}
	}
	sort.Slice(sites, func(i, j int) bool {
		if sites[i].File != sites[j].File {
			return sites[i].File < sites[j].File
		}
		return sites[i].Line < sites[j].Line
	})
	rep := map[string]interface{}{"rewritten": nRewritten, "uncontrolled": nLeft, "sites": sites}
	b, _ := json.MarshalIndent(rep, "", " ")
	if *report != "" {
		must(os.WriteFile(*report, b, 0o644))
	}
	fmt.Printf("maporder: rewritten=%d uncontrolled=%d\n", nRewritten, nLeft)
}

func sortableKey(t types.Type) bool {
	b, ok := t.Underlying().(*types.Basic)
	if !ok {
		return false
	}
	return b.Info()&(types.IsString|types.IsInteger) != 0
}

func exprText(src []byte, fset *token.FileSet, e ast.Expr) string {
	if e == nil {
		return ""
	}
	return string(src[fset.Position(e.Pos()).Offset:fset.Position(e.End()).Offset])
}

// addImport inserts an import declaration right after the package clause.
func addImport(src []byte, path string) []byte {
	fset := token.NewFileSet()
	f, err := parser.ParseFile(fset, "x.go", src, parser.PackageClauseOnly)
	must(err)
	end := fset.Position(f.Name.End()).Offset
	return append(src[:end:end], append([]byte("; import verifmo \""+path+"\""), src[end:]...)...)
}

func must(err error) {
	if err != nil {
		fmt.Fprintln(os.Stderr, "maporder:", err)
		os.Exit(2)
	}
}
