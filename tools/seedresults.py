#!/usr/bin/env python3
"""seedresults.py <regress.tsv>: update /verif/seeded/*/meta.json from the results of a regression run
(tools/regress.sh: one row per (stored change, check): label, property, exit code, classes, verdict line)."""
import json, os, sys
rows = [l.rstrip("\n").split("\t") for l in open(sys.argv[1]) if "\t" in l]
mut, ben = 0, {}
for label, prop, rc, classes, verdict in rows:
    d = "/verif/seeded/" + label
    mp = d + "/meta.json"
    if not os.path.exists(mp):
        print("no such seeded dir:", label)
        continue
    if label.startswith("benign"):
        ben.setdefault(label, {})[prop] = rc
        continue
    meta = json.load(open(mp))
    meta["check_run"] = "bin/check %s quick against a scratch copy of /repo HEAD with the patch applied (final regression, final code)" % prop
    meta["check_exit"] = int(rc) if rc.lstrip("-").isdigit() else rc
    meta["detected"] = rc == "1"
    meta["violation_classes"] = [c for c in classes.split(",") if c]
    meta["verdict_line"] = verdict
    json.dump(meta, open(mp, "w"), indent=1)
    mut += 1
for label, res in ben.items():
    mp = "/verif/seeded/%s/meta.json" % label
    meta = json.load(open(mp))
    meta["observed"] = "final regression: " + " ".join("%s=exit%s" % (k, v) for k, v in sorted(res.items()))
    meta["all_exit_0"] = all(v == "0" for v in res.values())
    json.dump(meta, open(mp, "w"), indent=1)
print("seeded changes updated:", mut, "benign updated:", len(ben))
