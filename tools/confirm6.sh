#!/bin/bash
# confirm6.sh <prop> : confirm the three wave-6 changes of one sub-agent (/tmp/w6-<prop>-out/m1..m3) in the
# scratch worktree /tmp/w6-<prop>: the patch applies, the library builds, the full suite passes, the
# demonstration fails with the change and passes without it. Writes confirm.txt and meta.txt next to the patch
# (layout expected by tools/seedkeep.py with MUTBASE=/tmp/w6out).
P="$1"; W=/tmp/w6-$P
export GOFLAGS=-mod=mod GOPROXY=off GOSUMDB=off GOTOOLCHAIN=local
mkdir -p /tmp/w6out/$P
for m in m1 m2 m3; do
  S=/tmp/w6-$P-out/$m; D=/tmp/w6out/$P/$m
  [ -f "$S/patch.diff" ] || { echo "$P $m: no patch"; continue; }
  mkdir -p "$D"; cp "$S/patch.diff" "$S/zz_demo_test.go" "$D/"; cp "$S/notes.md" "$D/meta.txt" 2>/dev/null
  git -C "$W" checkout -q -- . && git -C "$W" clean -fdq
  res=()
  RACE=""; grep -qi "race" "$S/notes.md" 2>/dev/null && [ "$P" = C07 ] && RACE="-race"
  if (cd "$W" && git apply "$S/patch.diff"); then res+=("apply=ok"); else res+=("apply=FAIL"); echo "${res[@]}" > "$D/confirm.txt"; continue; fi
  if (cd "$W" && go build ./... >/dev/null 2>&1); then res+=("build=ok"); else res+=("build=FAIL"); fi
  suite=FAIL
  for try in 1 2 3; do
    if (cd "$W" && go test -vet=off -count=1 ./... >/tmp/w6out/$P/$m.suite.log 2>&1); then suite=pass; break; fi
    # the wall-clock test TestContextDeadline flakes on a loaded machine: retry only when it is the only failure
    [ "$(grep -c -- '^--- FAIL' /tmp/w6out/$P/$m.suite.log)" = 1 ] && grep -q -- '--- FAIL: TestContextDeadline' /tmp/w6out/$P/$m.suite.log || break
  done
  res+=("suite=$suite")
  cp "$S/zz_demo_test.go" "$W/zz_demo_test.go"
  if (cd "$W" && go test -vet=off -count=1 $RACE -run ZZDemo . >/tmp/w6out/$P/$m.demo_with.log 2>&1); then res+=("demo_with_change=PASS(unexpected)"); else res+=("demo_with_change=fail(expected)"); fi
  rm -f "$W/zz_demo_test.go"; git -C "$W" checkout -q -- . && git -C "$W" clean -fdq
  cp "$S/zz_demo_test.go" "$W/zz_demo_test.go"
  if (cd "$W" && go test -vet=off -count=1 $RACE -run ZZDemo . >/tmp/w6out/$P/$m.demo_without.log 2>&1); then res+=("demo_without_change=pass(expected)"); else res+=("demo_without_change=FAIL(unexpected)"); fi
  rm -f "$W/zz_demo_test.go"; git -C "$W" checkout -q -- . && git -C "$W" clean -fdq
  echo "${res[@]}" > "$D/confirm.txt"
  echo "$P $m: ${res[*]} race=$RACE"
done
