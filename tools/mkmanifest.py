#!/usr/bin/env python3
"""Regenerates /verif/MANIFEST.json from the tables below (kept valid at all times)."""
import json, subprocess, os
V = os.path.dirname(os.path.dirname(os.path.abspath(__file__)))
TECH = "deterministic simulation with fault injection"
NA = {
 "C01":"pure function of (schema, document, variables, resolver results): no schedule, clock, fault order or shared state to simulate; needs an independent spec interpreter (differential testing), a different technique family. Its fault-dependent part is checked under C04, its reuse-dependent part under C06/C20.",
 "C02":"validation is a pure function of (schema, document) with per-call state only; nothing for a simulator to schedule or fault.",
 "C03":"parsing is a pure function of a byte string.",
 "C05":"input coercion is a pure function of (type, value, literal); 'no resolver is invoked' is decided on one goroutine with no timing in it.",
 "C08":"print/parse round trip is a pure function of an AST.",
 "C09":"crash-freedom over arbitrary inputs is coverage-guided fuzzing of pure entry points; the blocking behaviours that do depend on schedules are claimed under C15/C16.",
 "C10":"the introspection result is a pure function of the schema; its only order-of-iteration aspect is covered under C12.",
 "C11":"schema construction and AppendType are sequential deterministic calls; 'all orders of AppendType' is permutation generation, not interleaving.",
 "C14":"AST traversal is a pure function of (AST, visitor policy).",
 "C18":"error positions are a pure function of the request text.",
 "C19":"step counts are deterministic functions of the input family; no schedule, no fault.",
}
CHECKS = {
 "C16": ("exploration",
   "Every (query, context kind, resolver kind, entry point, cancellation point k of n) combination is enumerated and seeded schedules with random gate density are sampled; the oracle classifies each recorded history as cancel-before-completion / completion-before-cancel / both-ready and demands exactly the context error, the solo response, or either; promptness is a step count (no resolver released between cancellation and return). Also sampled: a second, never cancelled request on the same prepared plan while the abandoned execution still runs (must equal its solo response), lazy planning that panics in user code while the plan's lock is held, a resolver that ends the executing goroutine (the call must return), extensions handing back detached contexts, a preceding cancelled request.",
   "Trusted: testing/synctest fake clock and quiescence detection (go1.26.8), the seeded scheduler, the solo run of the same library code as reference. Sampled schedules, not all.",
   "seeded schedule search + enumerated cancellation points on a simulated clock", "§5 C16"),
 "C17": ("fault_enumeration",
   "All single-panic placements (11 hooks + 4 nil finish functions) x 6 panic value kinds x 16 requests x 6 extension positions x 2 entry points are enumerated, multi-panic plans sampled, each under a seeded map-iteration order; the oracle is a grammar/balance check over each extension's recorded hook log plus 'every fired panic is reported' and 'no panic escapes'. Panic values include ones whose Error/String method itself fails; requests include panicking resolvers (the resolve phase must still be finished). 12% of the sampled runs are cancellation scenarios on the seeded scheduler (a C16 scenario with 1-2 instrumented extensions): the hook log as it stands when the call returns must show every started phase finished exactly once and result collection done.",
   "Trusted: the instrumented Extension implementations and the hook-log grammar in sim/c17.go; map-order seam (tools/maporder). In the cancellation scenarios resolve notifications are not judged (an abandoned execution may still deliver them).",
   "enumerated panic-fault plans over instrumented extension hooks, seeded map order", "§5 C17"),
 "C13": ("exploration",
   "Seeded mutation documents with known top-level order (aliases, typed / bare / nested inline fragments and spreads, merged duplicates with variable-driven directives, multi-operation documents, nested selections up to 70 levels) are executed under seeded deferral/fault plans (thunks at any depth, failing thunks) and all four map-order policies; the oracle is a rank-monotonicity check over the recorded resolver/thunk event log.",
   "Trusted: document generator (order known by construction), the instrumented resolvers' event log, map-order seam.",
   "seeded deferral-fault plans + controlled map-iteration order, event-log ordering oracle", "§5 C13"),
 "C04": ("fault_enumeration",
   "Every single (response position, applicable fault kind, entry point) placement over a 43-request pool covering the nullability lattice, lists of leaves, abstract and single-possible-type positions is enumerated (about 10 000 placements; 32 fault kinds incl. element-level faults, deferred list elements, thunks yielding thunks, shared error values, possible types of another abstract type) and multi-fault plans are sampled, 45% of them on documents produced by a seeded generator of valid documents (sim/gendoc.go) and some with one outcome at every index of a list; the response is compared with a null-propagation reference model applied to the fault-free run (exact data equality, required error paths with order-aware shadowing, error paths address nulls) and with an independent selected-response-keys oracle (sim/selcheck.go). One recorded defect (non-null failure crossing a deferred position) is a known finding.",
   "Trusted: the reference model in sim/c04.go (about 60 lines), declared types recorded from ResolveInfo.ReturnType in the fault-free run. Soft faults (wrong Go kind at a nullable leaf, NaN, out-of-range, unknown enum value) accept null or a kind-conformant leaf.",
   "enumerated callback-fault plans against a null-propagation reference model", "§5 C04"),
}
CHECKS["C12"] = ("exploration",
   "Every request of a 63-request pool (valid, invalid, failing at execution incl. several failing deferred values and panicking extension hooks, introspection) is executed and validated under 12 map-iteration-order policies on the same schema and on schemas rebuilt under each policy (enumerated), after every single other request of the pool (enumerated pairs), and after seeded histories of other requests through Do / a shared plan cache / prepared plans (sampled; 35% on generated documents with failing resolvers); the marshalled JSON must be byte-identical to the reference response. One parsed document is validated repeatedly and must be left unmodified.",
   "Trusted: the map-order seam (tools/maporder rewrites every range-over-map of the library; 0 uncontrolled loops is asserted in the evidence); any permutation is admissible because Go leaves the order unspecified. Not covered: Go runtime nondeterminism other than map order and select.",
   "controlled hash-map iteration order (seeded permutations) + seeded request histories, byte-equality oracle", "§5 C12")
CHECKS["C06"] = ("exploration",
   "Every ordered pair of a 105-request near-collision pool (a, b, a) is pushed through a fresh cache with Normalize on and off (enumerated); seeded histories of Get+ExecutePlan, plan re-execution with other variables, Reset and schema replacement run under seeded cache knobs (MaxEntries 1-4/default, tiny MaxQueryBytes, nil cache), (35% with generated documents: one structure with two sets of literals plus an unrelated one), two schemas of different shape share the cache (cached errors must not cross; the first Get for an unseen schema is a miss), and an interleaved variant runs two clients on two schemas through one cache on the seeded scheduler (double misses, racing stores). After every operation the response must equal graphql.Do of the same request from scratch (including error responses), the entry count must respect the bound, counters must be monotone. The thorough tier also runs the race build. One recorded defect (error locations of a normalised hit) is a known finding.",
   "Trusted: graphql.Do of the same library as the from-scratch reference (a bug that corrupts both paths identically is C01's business); the echo world makes every argument, alias, included sibling and schema id visible in the response. 'The original document is not modified' is not observable through Get(text) and is not claimed.",
   "seeded operation histories + enumerated request pairs against a from-scratch reference execution", "§5 C06")
CHECKS["C15"] = ("exploration",
   "Producer, the library's forwarding goroutine, per-event executor goroutines, consumer (prompt / slow / stops after j) and the cancellation action are interleaved by the seeded scheduler over 0-5 events (ok, nullable failure, non-null failure) and subscribe-phase faults (syntax, validation, unknown operation, Subscribe returning error / nil / a plain value / a closed stream / panicking with error, string, int); the recorded history must show results in source order, each equal to the solo execution of its event (or the context error after cancellation), one result per event without cancellation, closure after source close / cancellation / failure, and - after cancellation and quiescence - no goroutine of the subscription still blocked (read off the bubble's goroutine dump).",
   "Trusted: testing/synctest quiescence detection and goroutine dump, the seeded scheduler. The library's two-ready selects are kept single-ready in the default mode (cancellation is not placed while the producer is mid-send or a result is pending at a blocked consumer; a consumer polls after cancellation); the both-ready mode (16% of runs, most of them with a buffered source) lifts this and accepts either legal branch. A payload-independent rule counts executions against delivered results (a dropped result followed by a delivered later one).",
   "seeded interleaving of producer / forwarder / executors / consumer / canceller with leak detection at quiescence", "§5 C15")
CHECKS["C07"] = ("exploration",
   "2-4 client tasks share one cold schema value, prepared plans and one plan cache (size 1-3, Normalize on/off) and issue Do / Get+ExecutePlan / ExecutePlan on a shared plan / ValidateDocument / Reset over a 27-request pool plus generated documents; the seeded scheduler interleaves them at client steps, every instrumented callback and the library's verif yield hooks (before each lock, the executor start and result send). Oracles: Go race detector on a -race build with every simulator hand-off hidden from it (runtime.RaceDisable), so that only the library's own synchronisation orders accesses and a race becomes a deterministic function of the chosen schedule; no panic; no deadlock / all clients finish; each response byte-equal to the same request run alone on a separately built cold schema; cache entry bound at every step.",
   "Trusted: runtime.RaceDisable hiding of scheduler hand-offs (a harness-only race is reported as infrastructure error, exit 2), the happens-before race detector (reports races between accesses that actually occur in the explored schedules), go1.26.8 testing/synctest. Package-level lazily initialised state is cold only in the first run of each worker process.",
   "seeded interleaving search with the race detector as oracle (simulator synchronisation hidden from it)", "§5 C07, §2.4")
CHECKS["C20"] = ("exploration",
   "Scoped to what depends on history and schedule (DESIGN.md §5 C20): one plan (prepared directly, obtained through the plain or the normalising cache, or re-planned per call) is executed 1-9 times by 1-3 interleaved client tasks, each execution with its own root token, variables, runtime-type variant, optional panicking extension hook and hostile resolvers that scribble over the argument map / variable map they were handed. Requests: an 18-request pool and 35% generated documents. Every resolver, type-resolver, isTypeOf and FieldResolver-source invocation (also of default-resolved fields) checks locally that its source is the token its parent produced in this execution, that ParentType is the runtime type, ReturnType the declared type, Path / FieldASTs / occurrence count / Operation / Fragments / RootValue / Schema are this request's, that directly variable-fed arguments carry the supplied values, that no argument or variable shows another invocation's writes, and that the context arrived; per-path arguments, resolved-path sets, response keys (independent selection-set oracle) and responses are compared with the same execution run alone.",
   "Trusted: tokens name (type, path, execution) by construction; the per-path comparison uses the same library code run alone, so a wrong coercion that is identical in both is outside this check (C05/C01). Whether the set of selected fields is right is only checked through the independent response-key oracle (sim/selcheck.go).",
   "seeded plan-reuse histories and interleavings with hostile callbacks, local parameter invariants", "§5 C20")
REASONS_PENDING = "claimed in DESIGN.md; the check is still under construction and is therefore not registered yet"
ALL = ["C%02d" % i for i in range(1, 21)]
hooks_commit = "0e04175"
m = {
 "version": 1,
 "setup_cmd": "cd /verif/tools && GOFLAGS=-mod=mod GOPROXY=off GOSUMDB=off GOTOOLCHAIN=local go build -o /verif/build/maporder ./maporder",
 "hooks": {"guard": "verif",
           "enable": "bin/buildsim copies /repo's working tree (non-test sources) to a scratch dir under /var/tmp, applies the map-order seam (tools/maporder) and runs `go1.26.8 test -c -tags verif [-race]`",
           "baseline_off_cmd": "cd /repo && go test -vet=off -count=1 ./...",
           "source_commits": [hooks_commit], "add_only": True},
 "engines": [{"name": "dsim", "path": "/verif/sim", "serves_properties": sorted(CHECKS),
              "kind_free_text": "deterministic simulation: one testing/synctest bubble per run, seeded scheduler releasing one parked goroutine or performing one environment action per step, choice tape, seeded fault plans through the library's callback seams, controlled map-iteration order, trace oracles, minimisation and replay"}],
 "checks": [],
 "not_applicable": [],
 "notes": "See DESIGN.md. bin/check <ID> <quick|thorough>; scratch builds live under /var/tmp and are removed by each check. known_findings.json lists recorded and repaired defects.",
}
for pid in sorted(CHECKS):
    level, text, note, tech, ref = CHECKS[pid]
    m["checks"].append({
        "property_id": pid, "quick_cmd": "bin/check %s quick" % pid, "thorough_cmd": "bin/check %s thorough" % pid,
        "evidence_file": "/verif/evidence/%s.json" % pid, "replay_cmd_template": "bin/check replay {path}", "engine": "dsim",
        "level_claimed": {"category": level, "text": text, "design_ref": ref}, "level_note": note,
        "technique": TECH + ": " + tech})
for pid in ALL:
    if pid in CHECKS:
        continue
    m["not_applicable"].append({"property_id": pid, "reason": NA.get(pid, REASONS_PENDING)})
json.dump(m, open(os.path.join(V, "MANIFEST.json"), "w"), indent=1)
print("MANIFEST.json written:", len(m["checks"]), "checks,", len(m["not_applicable"]), "not applicable")
