#!/usr/bin/env python3
"""mktable.py: regenerate the table of seeded changes in DESIGN.md (§12.6) from seeded/*/meta.json."""
import json, os, re
V = os.path.dirname(os.path.dirname(os.path.abspath(__file__)))
rows = []
def keyf(n):
    m = re.match(r"(C\d+)-w(\d+)-m(\d+)", n)
    return (m.group(1), int(m.group(2)), int(m.group(3)))
names = sorted((n for n in os.listdir(V + "/seeded") if re.match(r"C\d+-w\d+-m\d+$", n)), key=keyf)
for n in names:
    m = json.load(open("%s/seeded/%s/meta.json" % (V, n)))
    desc = " ".join(m.get("what_it_changes_and_needs", "").split())
    desc = desc.replace("|", "/")
    if len(desc) > 150:
        desc = desc[:150].rsplit(" ", 1)[0] + "…"
    cls = ", ".join(c.split("/", 1)[1] if "/" in c else c for c in m.get("violation_classes", []))
    det = "yes" if m.get("detected") else ("NO" if "detected" in m else "?")
    rows.append("| %s | %s | %s | %s |" % (n, det, cls, desc))
table = "| seeded change | detected by `bin/check <prop> quick` | violation class(es) | what it is |\n|---|---|---|---|\n" + "\n".join(rows) + "\n"
p = V + "/DESIGN.md"
s = open(p).read()
a = s.index("| seeded change | detected by")
b = a
lines = s[a:].split("\n")
n = 0
for l in lines:
    if l.startswith("|"):
        n += len(l) + 1
    else:
        break
s = s[:a] + table + s[a + n:]
open(p, "w").write(s)
print("rows:", len(rows), "detected:", sum(1 for r in rows if "| yes |" in r))
