#!/usr/bin/env python3
"""seedkeep.py <wave> <prop> <m> : run the property's quick check against the seeded change
/tmp/mut/<prop>/<m> and store it under /verif/seeded/<prop>-w<wave>-<m>/ with meta.json."""
import json, os, re, shutil, subprocess, sys
wave, prop, m = sys.argv[1], sys.argv[2], sys.argv[3]
src = "%s/%s/%s" % (os.environ.get("MUTBASE", "/tmp/mut"), prop, m)
dst = "/verif/seeded/%s-w%s-%s" % (prop, wave, m)
r = subprocess.run(["/verif/tools/trymut", prop, src + "/patch.diff"], capture_output=True, text=True)
out = r.stdout
classes = sorted(set(re.findall(r"class=(\S+)", out)))
verdict = [l for l in out.splitlines() if re.search(r"(quick|thorough):", l)]
os.makedirs(dst, exist_ok=True)
shutil.copy(src + "/patch.diff", dst + "/patch.diff")
shutil.copy(src + "/zz_demo_test.go", dst + "/zz_demo_test.go")
confirm = open(src + "/confirm.txt").read().split() if os.path.exists(src + "/confirm.txt") else []
meta = {
    "property": prop,
    "origin": "independent sub-agent, wave %s; given only the property text and a scratch worktree" % wave,
    "what_it_changes_and_needs": open(src + "/meta.txt").read().strip(),
    "confirmed_by_me": {
        "how": "scratch worktree at /repo HEAD: git apply patch.diff; go build ./...; go test -vet=off -count=1 ./... ; go test -run ZZDemo . with and without the change (C07 data-race demos with -race)",
        "result": confirm,
    },
    "check_run": "tools/trymut %s patch.diff  (= bin/check %s quick against a scratch copy of /repo HEAD with the patch applied)" % (prop, prop),
    "check_exit": r.returncode,
    "detected": r.returncode == 1,
    "violation_classes": classes,
    "verdict_line": verdict[-1] if verdict else "",
}
json.dump(meta, open(dst + "/meta.json", "w"), indent=1)
print(prop, m, "exit", r.returncode, classes[:3])
