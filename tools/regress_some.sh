#!/bin/bash
# regress_some.sh <out.tsv> <snapdir> <pattern>... : like regress.sh, for the stored changes whose directory
# name matches one of the shell patterns (e.g. 'C*-w6-*' 'benign-b[1-4]'); several of these can run side by side.
V="$(cd "$(dirname "$0")/.." && pwd)"
OUT="$1"; SNAP="$2"; shift 2; : > "$OUT"
rsync -a --delete --exclude .git --exclude replays "$V"/ "$SNAP"/
ALL="C04 C06 C07 C12 C13 C15 C16 C17 C20"
run() { # label props patch
  D=$(mktemp -d /var/tmp/mutrepo-XXXXXX)
  git -C /repo archive HEAD | tar -x -C "$D"
  (cd "$D" && patch -p1 -s < "$3") || { for p in $2; do echo -e "$1\t$p\tPATCHFAIL\t\t" >> "$OUT"; done; rm -rf "$D"; return; }
  for p in $2; do
    VERIF_REPO="$D" VERIF_EVIDENCE_DIR="$D/.evidence" VERIF_REPLAY_DIR="$D/.replays" "$SNAP"/bin/check $p quick > "$D/.out" 2>&1; rc=$?
    cls=$(grep -E 'class=' "$D/.out" | sed 's/.*class=//' | sort -u | head -4 | tr '\n' ',')
    verdict=$(grep -E "quick:" "$D/.out" | tail -1)
    echo -e "$1\t$p\t$rc\t$cls\t$verdict" >> "$OUT"
  done
  rm -rf "$D"
}
for d in "$SNAP"/seeded/*/; do
  n=$(basename "$d")
  ok=0; for pat in "$@"; do case "$n" in $pat) ok=1;; esac; done
  [ $ok = 1 ] || continue
  case "$n" in
    benign*) run "$n" "$ALL" "$d/patch.diff" ;;
    C*-w*-m*) run "$n" "${n%%-*}" "$d/patch.diff" ;;
  esac
done
echo DONE >> "$OUT"
