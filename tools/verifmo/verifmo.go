// Package verifmo is the map-iteration-order seam of the verification harness.
// It is copied into the scratch copy of graphql-go/graphql at build time; the
// rewritten library calls Keys at every range-over-map statement, and the
// harness selects the order policy. The Go specification leaves the iteration
// order of maps unspecified, so every permutation produced here is behaviour a
// caller may legitimately meet.
package verifmo

import "sort"

// Order policies.
const (
	Sorted  = 0 // ascending key order (also the default during package init)
	Reverse = 1 // descending
	Rotate  = 2 // ascending, rotated left by salt mod len (what small Go maps do)
	Shuffle = 3 // a permutation derived from (salt, site, len, call counter)
)

// The policy state is deliberately plain memory touched only inside
// //go:norace functions: atomics or a mutex here would synchronise every two
// goroutines that iterate a map and hide real data races of the library from
// the race detector. The simulator runs one goroutine at a time, so the
// counters are exact there; outside the simulator (the repository's own tests
// run against the rewritten copy) a lost update only perturbs a shuffle.
var (
	mode  uint32
	salt  uint64
	calls uint64
	sites uint64 // number of Keys calls with more than one key
)

// Set selects the policy for all following iterations and resets the call counter.
//
//go:norace
func Set(m uint32, s uint64) {
	mode = m
	salt = s
	calls = 0
}

// MultiKeyCalls returns how many Keys calls so far had at least two keys, i.e.
// how many iteration-order decisions the policy has actually taken.
//
//go:norace
func MultiKeyCalls() uint64 { return sites }

//go:norace
func decide() (m uint32, s uint64, c uint64) {
	sites++
	calls++
	return mode, salt, calls
}

func mix(x uint64) uint64 {
	x ^= x >> 33
	x *= 0xff51afd7ed558ccd
	x ^= x >> 33
	x *= 0xc4ceb9fe1a85ec53
	x ^= x >> 33
	return x
}

func hashString(h uint64, s string) uint64 {
	for i := 0; i < len(s); i++ {
		h = (h ^ uint64(s[i])) * 0x100000001b3
	}
	return h
}

// Keys returns the keys of m in the order the current policy prescribes.
func Keys[M ~map[K]V, K comparable, V any](m M, site string) []K {
	keys := make([]K, 0, len(m))
	for k := range m {
		keys = append(keys, k)
	}
	if len(keys) < 2 {
		return keys
	}
	md, sl, c := decide()
	sort.Slice(keys, func(i, j int) bool { return less(any(keys[i]), any(keys[j])) })
	n := len(keys)
	switch md {
	case Reverse:
		for i, j := 0, n-1; i < j; i, j = i+1, j-1 {
			keys[i], keys[j] = keys[j], keys[i]
		}
	case Rotate:
		r := int(sl % uint64(n))
		if r != 0 {
			out := make([]K, 0, n)
			out = append(out, keys[r:]...)
			out = append(out, keys[:r]...)
			keys = out
		}
	case Shuffle:
		h := mix(hashString(sl^0xcbf29ce484222325, site) ^ mix(uint64(n)<<32|c))
		for i := n - 1; i > 0; i-- {
			h = mix(h + 0x9e3779b97f4a7c15)
			j := int(h % uint64(i+1))
			keys[i], keys[j] = keys[j], keys[i]
		}
	}
	return keys
}

func less(a, b any) bool {
	switch x := a.(type) {
	case string:
		return x < b.(string)
	case int:
		return x < b.(int)
	case int8:
		return x < b.(int8)
	case int16:
		return x < b.(int16)
	case int32:
		return x < b.(int32)
	case int64:
		return x < b.(int64)
	case uint:
		return x < b.(uint)
	case uint8:
		return x < b.(uint8)
	case uint16:
		return x < b.(uint16)
	case uint32:
		return x < b.(uint32)
	case uint64:
		return x < b.(uint64)
	case uintptr:
		return x < b.(uintptr)
	}
	// named string / integer types: fall back to reflection-free formatting is
	// not possible generically; the rewriter only routes basic kinds here, and
	// named kinds are handled below.
	return lessNamed(a, b)
}
