package verifmo

import "reflect"

func lessNamed(a, b any) bool {
	va, vb := reflect.ValueOf(a), reflect.ValueOf(b)
	switch va.Kind() {
	case reflect.String:
		return va.String() < vb.String()
	case reflect.Int, reflect.Int8, reflect.Int16, reflect.Int32, reflect.Int64:
		return va.Int() < vb.Int()
	case reflect.Uint, reflect.Uint8, reflect.Uint16, reflect.Uint32, reflect.Uint64, reflect.Uintptr:
		return va.Uint() < vb.Uint()
	}
	return false
}
