#!/bin/bash
# regress.sh [out.tsv] : every stored seeded change (seeded/<prop>-w<k>-<m>/patch.diff) against its property's
# quick check, every stored behaviour-preserving change (seeded/benign*-b*/) against all nine, each on a scratch
# copy of /repo HEAD with the patch applied. Runs the checks from a snapshot of /verif so that it is not disturbed
# by edits. One TSV row per (change, check); last line DONE. Then: tools/seedresults.py <out.tsv>.
V="$(cd "$(dirname "$0")/.." && pwd)"
OUT="${1:-/var/tmp/regress.tsv}"; : > "$OUT"
SNAP=/var/tmp/verif-snap
rsync -a --delete --exclude .git "$V"/ "$SNAP"/
ALL="C04 C06 C07 C12 C13 C15 C16 C17 C20"
run() { # label props patch
  D=$(mktemp -d /var/tmp/mutrepo-XXXXXX)
  git -C /repo archive HEAD | tar -x -C "$D"
  (cd "$D" && patch -p1 -s < "$3") || { for p in $2; do echo -e "$1\t$p\tPATCHFAIL\t\t" >> "$OUT"; done; rm -rf "$D"; return; }
  for p in $2; do
    VERIF_REPO="$D" VERIF_EVIDENCE_DIR="$D/.evidence" VERIF_REPLAY_DIR="$D/.replays" "$SNAP"/bin/check $p quick > "$D/.out" 2>&1; rc=$?
    cls=$(grep -E 'class=' "$D/.out" | sed 's/.*class=//' | sort -u | head -4 | tr '\n' ',')
    verdict=$(grep -E "quick:" "$D/.out" | tail -1)
    echo -e "$1\t$p\t$rc\t$cls\t$verdict" >> "$OUT"
  done
  rm -rf "$D"
}
for d in "$SNAP"/seeded/*/; do
  n=$(basename "$d")
  case "$n" in
    benign*) run "$n" "$ALL" "$d/patch.diff" ;;
    C*-w*-m*) run "$n" "${n%%-*}" "$d/patch.diff" ;;
  esac
done
echo DONE >> "$OUT"
