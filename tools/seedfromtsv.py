#!/usr/bin/env python3
"""seedfromtsv.py <regress.tsv>: (re)write /verif/seeded/<prop>-w<wave>-<m>/ for every seeded change from the
results of the final regression (tools: /tmp/regress.sh, one row per (change, check))."""
import json, os, shutil, sys
rows = [l.rstrip("\n").split("\t") for l in open(sys.argv[1]) if "\t" in l]
bases = {"1": "/tmp/mut", "2": "/tmp/mut2", "3": "/tmp/mut3", "4": "/tmp/mut4"}
n = 0
for label, prop, rc, classes, verdict in rows:
    if not label.startswith("w"):
        continue
    w, p, m = label[1:].split("-")
    src = "%s/%s/%s" % (bases[w], p, m)
    dst = "/verif/seeded/%s-w%s-%s" % (p, w, m)
    os.makedirs(dst, exist_ok=True)
    shutil.copy(src + "/patch.diff", dst + "/patch.diff")
    shutil.copy(src + "/zz_demo_test.go", dst + "/zz_demo_test.go")
    confirm = open(src + "/confirm.txt").read().split() if os.path.exists(src + "/confirm.txt") else []
    meta = {
        "property": p,
        "origin": "independent sub-agent, wave %s; given only the property text (waves 2-4: also one-line summaries of earlier agents' ideas, to avoid repeats) and a scratch worktree" % w,
        "what_it_changes_and_needs": open(src + "/meta.txt").read().strip(),
        "confirmed_by_me": {
            "how": "scratch worktree at /repo HEAD: git apply patch.diff; go build ./...; go test -vet=off -count=1 ./... ; go test -run ZZDemo . with and without the change (C07 data-race demos with -race)",
            "result": confirm,
        },
        "check_run": "bin/check %s quick against a scratch copy of /repo HEAD with the patch applied (final regression, final code)" % p,
        "check_exit": int(rc) if rc.lstrip("-").isdigit() else rc,
        "detected": rc == "1",
        "violation_classes": [c for c in classes.split(",") if c],
        "verdict_line": verdict,
    }
    json.dump(meta, open(dst + "/meta.json", "w"), indent=1)
    n += 1
ben = {}
for label, prop, rc, classes, verdict in rows:
    if label.startswith("benign"):
        ben.setdefault(label, {})[prop] = rc
for label, res in ben.items():
    kind, b = label.split("-")
    d = "/verif/seeded/%s-%s" % ("benign" if kind == "benign1" else "benign2", b)
    mp = d + "/meta.json"
    if os.path.exists(mp):
        meta = json.load(open(mp))
        meta["observed"] = "final regression: " + " ".join("%s=exit%s" % (k, v) for k, v in sorted(res.items()))
        meta["all_exit_0"] = all(v == "0" for v in res.values())
        json.dump(meta, open(mp, "w"), indent=1)
print("seeded dirs written:", n, "benign updated:", len(ben))
